import IndicatifModel.Model.Locks
import IndicatifModel.Proofs.LocksProgress
/-!
# C08 — No deadlock; steady-tick thread lifecycle (lock-order part)
-/
namespace IndicatifModel.Locks

/-- **Every public call, as the code is in the repository now, respects the lock order**
`ticker slot < join < bar state < multi state < stop flag`, in every configuration. -/
theorem C08_calls_ordered :
    ∀ call ∈ allCalls, ∀ inMulti ticker : Bool, ordered [] (program currentF8 call inMulti ticker) = true := by
  decide

/-- the ticker thread only ever needs resources above `join` -/
theorem C08_ticker_high : ∀ inMulti : Bool, ordered [] (tickerIteration inMulti) = true ∧
    (tickerIteration inMulti).all (fun a => match a with
      | .acq c | .racq c => rank .J < rank c
      | .join => false
      | _ => true) = true := by
  decide

/-- **The pinned `update()` violates the order** (candidate F8): it takes the ticker slot while holding
the bar state, which `disable_steady_tick` holds while joining the ticker thread, which needs the
bar state. -/
theorem C08_update_unordered : ∀ inMulti ticker : Bool, ordered [] (program false .update inMulti ticker) = false := by
  decide

/-! ### From the lock-order table to deadlock freedom

Lock *instances*: resource `5·n + rank c` is the `n`-th lock of class `c` (bar `n`'s state, multi `n`'s
state, …), so that the rank of a resource is `r % 5`; `J` has rank 1 and no instances. A call site says
which instances a call works on and which thread is the bar's ticker. -/

def res (c : LockClass) (n : Nat) : Nat := 5 * n + rank c
def rankOf (r : Nat) : Nat := r % 5

theorem rank_lt (c : LockClass) : rank c < 5 := by cases c <;> decide
theorem rankOf_res (c : LockClass) (n : Nat) : rankOf (res c n) = rank c := by
  have := rank_lt c
  simp only [rankOf, res]; omega

structure Site where
  call : Call
  inMulti : Bool
  ticker : Bool
  inst : LockClass → Nat     -- which instance of each lock class the call works on
  tk : Nat                   -- index of the thread that is this bar's steady ticker

def toActs (inst : LockClass → Nat) (tk : Nat) : LAct → List LK.Act
  | .acq c | .racq c => [.acq (res c (inst c))]
  | .rel c | .rrel c => [.rel (res c (inst c))]
  | .join => [.join tk]
  | .notify | .spawn => []

theorem res_inj (inst : LockClass → Nat) (a b : LockClass) (h : res a (inst a) = res b (inst b)) : a = b := by
  have h1 := rankOf_res a (inst a)
  have h2 := rankOf_res b (inst b)
  rw [h] at h1
  have : rank a = rank b := by rw [← h1, ← h2]
  cases a <;> cases b <;> simp_all [rank]

theorem map_erase (inst : LockClass → Nat) (held : List LockClass) (c : LockClass) :
    (held.erase c).map (fun x => res x (inst x)) = (held.map (fun x => res x (inst x))).erase (res c (inst c)) := by
  induction held with
  | nil => rfl
  | cons h hs ih =>
    by_cases hc : h = c
    · subst hc; simp
    · have hne : res h (inst h) ≠ res c (inst c) := fun he => hc (res_inj inst h c he)
      have hne' : (h == c) = false := by simpa using hc
      have hne'' : (res h (inst h) == res c (inst c)) = false := by simpa using hne
      simp only [List.erase_cons, hne', List.map_cons, hne'', Bool.false_eq_true, if_false, ih]

/-- a program that passes the executable lock-order check is disciplined in the sense of `LK.Ord`, whatever
instances it works on -/
theorem ordered_ord (inst : LockClass → Nat) (tk : Nat) : ∀ (p : List LAct) (held : List LockClass),
    ordered held p = true → LK.Ord rankOf 1 (held.map (fun x => res x (inst x))) (p.flatMap (toActs inst tk)) := by
  intro p
  induction p with
  | nil => intro held h; simp only [ordered, List.isEmpty_iff] at h; subst h; simp [LK.Ord]
  | cons a p ih =>
    intro held h
    have hall : ∀ (c : LockClass), held.all (fun h => decide (rank h < rank c)) = true →
        ∀ x ∈ held.map (fun x => res x (inst x)), rankOf x < rankOf (res c (inst c)) := by
      intro c hc x hx
      obtain ⟨y, hy, rfl⟩ := List.mem_map.1 hx
      rw [rankOf_res, rankOf_res]
      exact of_decide_eq_true (List.all_eq_true.1 hc y hy)
    rw [List.flatMap_cons]
    cases a with
    | acq c =>
      simp only [ordered, Bool.and_eq_true] at h
      exact ⟨hall c h.1, ih (c :: held) h.2⟩
    | racq c =>
      simp only [ordered, Bool.and_eq_true] at h
      exact ⟨hall c h.1, ih (c :: held) h.2⟩
    | rel c =>
      simp only [ordered, Bool.and_eq_true] at h
      refine ⟨List.mem_map.2 ⟨c, by simpa using h.1, rfl⟩, ?_⟩
      have := ih (held.erase c) h.2
      rw [map_erase] at this
      exact this
    | rrel c =>
      simp only [ordered, Bool.and_eq_true] at h
      refine ⟨List.mem_map.2 ⟨c, by simpa using h.1, rfl⟩, ?_⟩
      have := ih (held.erase c) h.2
      rw [map_erase] at this
      exact this
    | join =>
      simp only [ordered, Bool.and_eq_true] at h
      refine ⟨?_, ih held h.2⟩
      intro x hx
      obtain ⟨y, hy, rfl⟩ := List.mem_map.1 hx
      rw [rankOf_res]
      exact of_decide_eq_true (List.all_eq_true.1 h.1 y hy)
    | notify => exact ih held (by simpa [ordered] using h)
    | spawn => exact ih held (by simpa [ordered] using h)

/-- the lock actions of one public call at one call site -/
def Site.acts (s : Site) : List LK.Act := (program currentF8 s.call s.inMulti s.ticker).flatMap (toActs s.inst s.tk)

theorem site_ord (s : Site) (hc : s.call ∈ allCalls) : LK.Ord rankOf 1 [] s.acts := by
  have := ordered_ord s.inst s.tk (program currentF8 s.call s.inMulti s.ticker) [] (C08_calls_ordered s.call hc s.inMulti s.ticker)
  simpa [Site.acts] using this

/-- a user thread: any sequence of public calls -/
def userActs (sites : List Site) : List LK.Act := sites.flatMap Site.acts

theorem user_ord : ∀ (sites : List Site), (∀ s ∈ sites, s.call ∈ allCalls) → LK.Ord rankOf 1 [] (userActs sites) := by
  intro sites
  induction sites with
  | nil => intro _; simp [userActs, LK.Ord]
  | cons s ss ih =>
    intro h
    have h1 := site_ord s (h s (by simp))
    have h2 := ih (fun x hx => h x (by simp [hx]))
    simpa [userActs] using LK.ord_append rankOf 1 s.acts (userActs ss) [] h1 h2

/-- a steady-ticker thread: any number of loop iterations -/
def tickerActs (inMulti : Bool) (inst : LockClass → Nat) (n : Nat) : List LK.Act :=
  (List.replicate n (tickerIteration inMulti)).flatten.flatMap (toActs inst 0)

theorem ticker_ord_high (inMulti : Bool) (inst : LockClass → Nat) (n : Nat) :
    LK.Ord rankOf 1 [] (tickerActs inMulti inst n) ∧ ∀ a ∈ tickerActs inMulti inst n, LK.highAct rankOf 1 a := by
  have hit := C08_ticker_high inMulti
  have hone : LK.Ord rankOf 1 [] ((tickerIteration inMulti).flatMap (toActs inst 0)) := by
    simpa using ordered_ord inst 0 (tickerIteration inMulti) [] hit.1
  constructor
  · induction n with
    | zero => simp [tickerActs, LK.Ord]
    | succ n ih =>
      have : tickerActs inMulti inst (n + 1) = (tickerIteration inMulti).flatMap (toActs inst 0) ++ tickerActs inMulti inst n := by
        simp [tickerActs, List.replicate_succ]
      rw [this]
      exact LK.ord_append rankOf 1 _ _ [] hone ih
  · intro a ha
    simp only [tickerActs, List.mem_flatMap, List.mem_flatten, List.mem_replicate] at ha
    obtain ⟨la, ⟨l, ⟨_, rfl⟩, hla⟩, hal⟩ := ha
    have hx := List.all_eq_true.1 hit.2 la hla
    cases la with
    | acq c => simp only [toActs, List.mem_singleton] at hal; subst hal; simp only [LK.highAct, rankOf_res]; exact of_decide_eq_true hx
    | racq c => simp only [toActs, List.mem_singleton] at hal; subst hal; simp only [LK.highAct, rankOf_res]; exact of_decide_eq_true hx
    | rel c => simp only [toActs, List.mem_singleton] at hal; subst hal; simp [LK.highAct]
    | rrel c => simp only [toActs, List.mem_singleton] at hal; subst hal; simp [LK.highAct]
    | join => simp at hx
    | notify => simp [toActs] at hal
    | spawn => simp [toActs] at hal

/-- a system of threads running public calls and steady tickers -/
inductive Role where
  | user (sites : List Site)
  | ticker (inMulti : Bool) (inst : LockClass → Nat) (iterations : Nat)

def Role.thread : Role → LK.Thread
  | .user sites => { prog := userActs sites, held := [] }
  | .ticker m inst n => { prog := tickerActs m inst n, held := [] }

/-- every call is one of the public calls, and every `join` targets a ticker thread -/
def WellFormed (roles : List Role) : Prop :=
  ∀ r ∈ roles, ∀ sites, r = .user sites → ∀ s ∈ sites, s.call ∈ allCalls ∧
    ∃ m inst n, roles[s.tk]? = some (.ticker m inst n)

theorem join_mem_user (sites : List Site) (k : Nat) (h : LK.Act.join k ∈ userActs sites) : ∃ s ∈ sites, s.tk = k := by
  simp only [userActs, List.mem_flatMap, Site.acts] at h
  obtain ⟨s, hs, la, _, hal⟩ := h
  refine ⟨s, hs, ?_⟩
  cases la <;> simp [toActs] at hal
  exact hal.symm

/-- **C08, no deadlock.** Any number of threads, each performing any sequence of public calls on any bars
and `MultiProgress`es (with or without steady tickers, inside a multi or not), together with the steady
ticker threads themselves: in every state reachable by executing lock actions, as long as some thread
has not finished, some thread can take its next step. -/
theorem C08_no_deadlock (roles : List Role) (hwf : WellFormed roles) (s : LK.Sys)
    (hr : LK.Reach (roles.map Role.thread) s) (i : Nat) (t : LK.Thread) (hi : s[i]? = some t) (hne : t.prog ≠ []) :
    ∃ j, LK.enabled s j := by
  refine LK.no_deadlock rankOf 1 4 (fun r => by simp only [rankOf]; omega) (by omega) (roles.map Role.thread) s ?_ hr i t hi hne
  constructor
  · intro j u hu
    rw [List.getElem?_map] at hu
    cases hr : roles[j]? with
    | none => simp [hr] at hu
    | some r =>
      simp only [hr, Option.map_some, Option.some.injEq] at hu
      subst hu
      have hmem : r ∈ roles := List.mem_of_getElem? hr
      cases r with
      | user sites => exact user_ord sites (fun x hx => (hwf _ hmem sites rfl x hx).1)
      | ticker m inst n => exact (ticker_ord_high m inst n).1
  · intro j u k hu hk
    rw [List.getElem?_map] at hu
    cases hr : roles[j]? with
    | none => simp [hr] at hu
    | some r =>
      simp only [hr, Option.map_some, Option.some.injEq] at hu
      subst hu
      have hmem : r ∈ roles := List.mem_of_getElem? hr
      cases r with
      | user sites =>
        obtain ⟨st, hst, rfl⟩ := join_mem_user sites k hk
        obtain ⟨m, inst, n, htk⟩ := (hwf _ hmem sites rfl st hst).2
        refine ⟨(Role.ticker m inst n).thread, by rw [List.getElem?_map, htk]; rfl, ?_⟩
        exact ⟨by simp [Role.thread], (ticker_ord_high m inst n).2⟩
      | ticker m inst n =>
        exact absurd ((ticker_ord_high m inst n).2 _ hk) (by simp [LK.highAct])

/-- non-vacuity: two user threads and a ticker on one bar inside a multi -/
example : WellFormed [.user [⟨.update, true, true, fun _ => 0, 2⟩, ⟨.disableSteadyTick, true, true, fun _ => 0, 2⟩],
    .user [⟨.finish, true, true, fun _ => 0, 2⟩], .ticker true (fun _ => 0) 3] := by
  intro r hr sites hs s hsm
  simp only [List.mem_cons, List.mem_nil_iff, or_false] at hr
  rcases hr with rfl | rfl | rfl
  · cases hs
    simp only [List.mem_cons, List.mem_nil_iff, or_false] at hsm
    rcases hsm with rfl | rfl <;> exact ⟨by decide, true, fun _ => 0, 3, rfl⟩
  · cases hs
    simp only [List.mem_cons, List.mem_nil_iff, or_false] at hsm
    subst hsm
    exact ⟨by decide, true, fun _ => 0, 3, rfl⟩
  · cases hs

end IndicatifModel.Locks

namespace IndicatifModel.StopProtocol

/-- the enumeration of the protocol's state space is closed under every transition (with and without the
timeout), so the statements below really quantify over every reachable state -/
theorem C08_protocol_closed : ∀ timeout : Bool, ∀ s ∈ allStates timeout, ∀ s' ∈ steps timeout s, s' ∈ allStates timeout := by
  decide +kernel

/-- **No lost wake-up, no waiting for the interval.** With the timeout transition removed (an interval of
any length), in every reachable state in which the stop request has completed, the ticker thread exits
within four of its own steps; and no reachable state is stuck before both sides are done. -/
theorem C08_stop_prompt :
    (∀ s ∈ allStates false, s.st = .done → (tickerAlone 4 s).tk = .exited) ∧
    (∀ s ∈ allStates false, (s.tk ≠ .exited ∨ s.st ≠ .done) → s.st = .done ∨ steps false s ≠ []) := by
  decide +kernel

/-- mutual exclusion of the flag's mutex, and the flag is only ever set (never cleared) -/
theorem C08_protocol_mutex : ∀ timeout : Bool, ∀ s ∈ allStates timeout,
    (s.tk = .check ↔ s.own = .ticker) ∧ (s.st = .locked ↔ s.own = .stopper) ∧ (s.st = .done → s.flag = true) := by
  decide +kernel

/-- non-vacuity: the state space is not trivial, and contains the critical interleaving (the ticker has
checked the flag and waits, the stopper sets the flag afterwards) -/
example : 20 ≤ (allStates false).length ∧
    ({ flag := true, tk := .waiting, own := .free, st := .unlocked, again := 1 } : PS) ∈ allStates false := by
  decide +kernel

end IndicatifModel.StopProtocol
