import IndicatifModel.Model.Locks
/-!
# C08 — No deadlock; steady-tick thread lifecycle (lock-order part)
-/
namespace IndicatifModel.Locks

/-- **Every public call, as the code is in the repository now, respects the lock order**
`ticker slot < join < bar state < multi state < stop flag`, in every configuration. -/
theorem C08_calls_ordered :
    ∀ call ∈ allCalls, ∀ inMulti ticker : Bool, ordered [] (program currentF8 call inMulti ticker) = true := by
  decide

/-- the ticker thread only ever needs resources above `join` -/
theorem C08_ticker_high : ∀ inMulti : Bool, ordered [] (tickerIteration inMulti) = true ∧
    (tickerIteration inMulti).all (fun a => match a with
      | .acq c | .racq c => rank .J < rank c
      | .join => false
      | _ => true) = true := by
  decide

/-- **The pinned `update()` violates the order** (candidate F8): it takes the ticker slot while holding
the bar state, which `disable_steady_tick` holds while joining the ticker thread, which needs the
bar state. -/
theorem C08_update_unordered : ∀ inMulti ticker : Bool, ordered [] (program false .update inMulti ticker) = false := by
  decide

end IndicatifModel.Locks
