import Mathlib.Tactic.Ring
import Mathlib.Tactic.FieldSimp
import Mathlib.Tactic.Linarith
import Mathlib.Algebra.Order.Field.Basic

/-!
# C09 — Rate and ETA estimator laws (algebraic core)

The recurrences of `Estimator::record` / `steps_per_second` over an arbitrary ordered field with a
multiplicative weight function `w` (`w 0 = 1`, `w (a+b) = w a · w b`, `0 < w t < 1` for `t > 0`);
`0.1 ^ (t / 15)` over the reals is such a function. `Model/Estimator.lean` runs the same formulas on
`Float` for the correspondence with the `f64` implementation.
-/
namespace IndicatifModel.EstimatorLaws
variable {α : Type} [Field α] [LinearOrder α] [IsStrictOrderedRing α]

structure Weight (α : Type) [Field α] [LinearOrder α] [IsStrictOrderedRing α] where
  w : α → α
  w_zero : w 0 = 1
  w_add : ∀ a b, w (a + b) = w a * w b
  w_pos : ∀ a, 0 < w a
  w_lt_one : ∀ a, 0 < a → w a < 1

structure Est (α : Type) where
  s : α      -- smoothed
  d : α      -- double smoothed
  T : α      -- time since start at last sample
deriving Repr

/-- one sample of duration dt at rate r (steps/sec) -/
def record (W : Weight α) (e : Est α) (dt r : α) : Est α :=
  let wt := W.w dt
  let s' := e.s * wt + r * (1 - wt)
  let T' := e.T + dt
  let norm := s' / (1 - W.w T')
  { s := s', d := e.d * wt + norm * (1 - wt), T := T' }

def sps (W : Weight α) (e : Est α) (δ : α) : α :=
  let rw := W.w δ
  let tw := 1 - W.w (e.T + δ)
  let sp := e.s * rw / tw
  (e.d * rw + sp * (1 - rw)) / tw

theorem steady_step (W : Weight α) (e : Est α) (dt r : α) (hdt : 0 < dt) (hT : 0 ≤ e.T)
    (hs : e.s = r * (1 - W.w e.T)) (hd : e.d = r * (1 - W.w e.T)) :
    (record W e dt r).s = r * (1 - W.w (e.T + dt)) ∧ (record W e dt r).d = r * (1 - W.w (e.T + dt)) := by
  have hpos : 0 < e.T + dt := by linarith
  have hne : (1 - W.w (e.T + dt)) ≠ 0 := by
    have := W.w_lt_one _ hpos
    intro h; linarith
  constructor
  · simp only [record, hs, W.w_add]; ring
  · simp only [record, hs, hd]
    rw [W.w_add] at hne ⊢
    field_simp
    ring
end IndicatifModel.EstimatorLaws
