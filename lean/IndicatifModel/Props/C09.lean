import Mathlib.Tactic.NormNum
import Mathlib.Tactic.Push
import Mathlib.Data.Rat.Defs
import IndicatifModel.Proofs.EstimatorBridge
import IndicatifModel.Generated.Funs
import IndicatifModel.Proofs.GenBridgeEst

/-!
# C09 — Rate and ETA estimator laws

The theorems are about `Model/Estimator.lean`'s `record`, `reset` and `stepsPerSecond` — the very
definitions the driver executes on `Float` against the crate — instantiated with the exact arithmetic
of an ordered field `α` and a weight function `W` (`w 0 = 1`, `w (a+b) = w a · w b`, `0 < w t`,
`w t < 1` for `t > 0`; the code's `0.1 ^ (t / 15)` over the reals is one). What separates the
theorems from the code is therefore floating-point rounding and libm's `pow` (trusted base).

Time is `Nat` nanoseconds, positions are `Nat`.
-/
namespace IndicatifModel.EstimatorLaws
open IndicatifModel.Estimator
variable {α : Type} [Field α] [LinearOrder α] [IsStrictOrderedRing α]

/-- **Steady progress.** Samples arriving at any cadence (gaps `dt_i > 0` ns, `ds_i > 0` steps) whose
rate is exactly `r` steps per second each: right at the last sample the reported rate is `r`. -/
theorem C09_steady (W : Weight α) (r : α) (t0 : Nat) (hist : List (Nat × Nat)) (hne : hist ≠ [])
    (hpos : ∀ p ∈ hist, 0 < p.1 ∧ 0 < p.2)
    (hrate : ∀ p ∈ hist, ((p.1 : Nat) : α) / secs (fieldOps W) p.2 = r) :
    let e := hist.foldl (feed W) (new (fieldOps W) t0)
    stepsPerSecond (fieldOps W) e e.prevTime = r := by
  intro e
  have h := steady_fold W r hist (new (fieldOps W) t0) (steady_new W r t0) hpos hrate
  obtain ⟨hst, hgrow, hstart, _⟩ := h
  have hT : (new (fieldOps W) t0).prevTime < e.prevTime := hgrow hne
  exact steady_query W r e hst (by
    have h0 : e.startTime = (new (fieldOps W) t0).startTime := hstart
    simp only [new] at hT h0
    omega)

/-- **Finite, non-negative and bounded.** Along *any* sequence of `record` calls (including calls that
record nothing and backwards seeks, which reset), if every sample that is taken has a rate in
`[0, M]`, then at every query instant strictly after the start / the last reset the denominators are
non-zero and the reported rate lies in `[0, M]`. -/
theorem C09_bounded (W : Weight α) (M : α) (hM : 0 ≤ M) (calls : List (Nat × Nat)) (e0 : Estimator.Est α)
    (hg : Good W M e0) (hs : SamplesLe W M e0 calls) (q : Nat) :
    let e := calls.foldl (fun e c => Estimator.record (fieldOps W) e c.1 c.2) e0
    e.prevTime ≤ q → e.startTime < q →
    (1 - W.w (secs (fieldOps W) (q - e.startTime)) ≠ 0) ∧
    0 ≤ stepsPerSecond (fieldOps W) e q ∧ stepsPerSecond (fieldOps W) e q ≤ M := by
  intro e hq1 hq2
  have hge : Good W M e := good_fold W M calls e0 hg hs
  exact good_query W M hM e hge q hq1 hq2

/-- a fresh estimator is `Good` for every bound -/
theorem C09_new_good (W : Weight α) (M : α) (t0 : Nat) : Good W M (new (fieldOps W) t0) := good_new W M t0

/-- **Decay during a stall — `_partial`.** If at the last sample the raw first-level average does not
exceed the raw second-level one (`smoothed ≤ doubleSmoothed`; in particular for every steady history,
where they are equal), the reported rate never rises while no further sample arrives: later query,
smaller or equal rate.

The full statement (monotone decay after *every* history) is false for the code and for this model —
`C09_stall_rise_witness` — and is listed as finding F20. -/
theorem C09_stall_decay_partial (W : Weight α) (e : Estimator.Est α) (h0 : 0 ≤ e.smoothed) (hsd : e.smoothed ≤ e.doubleSmoothed)
    (hst : e.startTime < e.prevTime) (q1 q2 : Nat) (h1 : e.prevTime ≤ q1) (h12 : q1 ≤ q2) :
    stepsPerSecond (fieldOps W) e q2 ≤ stepsPerSecond (fieldOps W) e q1 := by
  rw [sps_abs W e q1 (by omega) h1, sps_abs W e q2 (by omega) (by omega)]
  apply sps_antitone W (abs W e)
  · exact secs_pos W _ (by omega)
  · exact h0
  · exact hsd
  · exact secs_nonneg W _
  · exact secs_mono W _ _ (by omega)

/-- **The rate can rise during a stall** (finding F20): with more weight in the first-level average than
in the second-level one (`s = 4`, `d = 1`, half of the total weight already decayed, `c = w T = 1/2`)
the reported value grows from `2` right at the last sample to `22/9` by the time `w δ = 1/2`. -/
theorem C09_stall_rise_witness :
    spsU (4 : ℚ) 1 (1/2) 1 = 2 ∧ spsU (4 : ℚ) 1 (1/2) (1/2) = 22/9 ∧
    spsU (4 : ℚ) 1 (1/2) 1 < spsU (4 : ℚ) 1 (1/2) (1/2) := by
  simp only [spsU]
  norm_num

/-- … and it tends to zero all the same: for every history the reported rate is at most
`(d + s / (1 − c)) · u / (1 − c)` with `u = w δ → 0` -/
theorem C09_stall_limit (s d c u : α) (hs : 0 ≤ s) (hd : 0 ≤ d) (hc0 : 0 ≤ c) (hc : c < 1) (hu0 : 0 < u) (hu : u ≤ 1) :
    spsU s d c u ≤ (d + s / (1 - c)) * u / (1 - c) := by
  have h1c : 0 < 1 - c := by linarith
  have hcu : 0 < 1 - c * u := by nlinarith
  have hle : 1 - c ≤ 1 - c * u := by nlinarith
  simp only [spsU]
  have hA : s * u / (1 - c * u) * (1 - u) ≤ s / (1 - c) * u := by
    have e1 : s * u / (1 - c * u) ≤ s * u / (1 - c) := div_le_div_of_nonneg_left (mul_nonneg hs (le_of_lt hu0)) h1c hle
    have e2 : s * u / (1 - c * u) * (1 - u) ≤ s * u / (1 - c * u) * 1 :=
      mul_le_mul_of_nonneg_left (by linarith) (div_nonneg (mul_nonneg hs (le_of_lt hu0)) (le_of_lt hcu))
    calc s * u / (1 - c * u) * (1 - u) ≤ s * u / (1 - c * u) := by simpa using e2
      _ ≤ s * u / (1 - c) := e1
      _ = s / (1 - c) * u := by ring
  have hnum : d * u + s * u / (1 - c * u) * (1 - u) ≤ (d + s / (1 - c)) * u := by
    have : (d + s / (1 - c)) * u = d * u + s / (1 - c) * u := by ring
    rw [this]; linarith
  have hnn : 0 ≤ (d + s / (1 - c)) * u := mul_nonneg (add_nonneg hd (div_nonneg hs (le_of_lt h1c))) (le_of_lt hu0)
  calc (d * u + s * u / (1 - c * u) * (1 - u)) / (1 - c * u)
      ≤ (d + s / (1 - c)) * u / (1 - c * u) := div_le_div_of_nonneg_right hnum (le_of_lt hcu)
    _ ≤ (d + s / (1 - c)) * u / (1 - c) := div_le_div_of_nonneg_left hnn h1c hle

end IndicatifModel.EstimatorLaws

namespace IndicatifModel.Estimator

/-- **Reset forgets.** After `reset_eta` / `reset_elapsed` at time `now` with the bar at position `p` (the
repaired `BarState::reset` sets `prev_steps` to the current position first; for `reset()`, which also moves the position
back to zero, see `C09_reset_all_is_fresh`), every later sequence of
`record` calls behaves exactly like the same sequence, with positions counted from `p`, on an estimator
created at `now`: the state is the fresh one shifted by `p`, so every reported rate is identical.
Holds for any arithmetic (`Ops α`), in particular for `Float`. -/
theorem C09_reset_forgets {α : Type} (o : Ops α) (e : Est α) (p now : Nat) (calls : List (Nat × Nat)) (q : Nat) :
    let after := calls.foldl (fun e c => record o e (c.1 + p) c.2) (reset o { e with prevSteps := p } now)
    let fresh := calls.foldl (fun e c => record o e c.1 c.2) (new o now)
    after = shift p fresh ∧ stepsPerSecond o after q = stepsPerSecond o fresh q := by
  intro after fresh
  have h0 : reset o { e with prevSteps := p } now = shift p (new o now) := by
    simp [reset, new, shift]
  have h : after = shift p fresh := by
    show calls.foldl (fun e c => record o e (c.1 + p) c.2) (reset o { e with prevSteps := p } now) = _
    rw [h0]
    exact fold_shift o p calls (new o now)
  exact ⟨h, by rw [h]; rfl⟩

/-- **`reset()` starts over** (repair of F37): after `ProgressBar::reset` at time `now` the estimator is exactly the one of a
bar created at `now` (both averages zero, no steps seen, clock at `now`), the position is zero and the elapsed clock restarts —
whatever the position and the history were. Every later rate, eta and duration is therefore the one a fresh bar given the
same updates reports. (The pinned code, and the first repair of F21, left the old position in `prev_steps`: a bar at 100 that
was reset and moved to 150 within a second reported 50 steps/s.) -/
theorem C09_reset_all_is_fresh {α : Type} (o : Ops α) (w : EW α) (now : Nat) :
    (step o w now .reset).est = new o now ∧ (step o w now .reset).pos = 0 ∧ (step o w now .reset).started = now ∧
    (step o w now .reset).finished = false := by
  simp [step, reset, new]

/-- **eta and duration, as the getters compute them** (the same definitions the driver runs on `Float` against the crate):
`eta` is zero when the bar is finished, when the length is unknown and when the estimated rate is zero (no progress seen);
otherwise it is the remaining steps (saturating at 0) divided by the rate the estimator reports at the same instant,
converted by `secs_to_duration`; `duration` is zero for an unknown length or a finished bar and otherwise the saturating sum
of `elapsed` and `eta` at the same instant -/
theorem C09_eta_duration_laws {α : Type} (o : Ops α) (isZero : α → Bool) (toDur : α → Nat) (w : EW α) (now : Nat) :
    (w.finished = true → etaOf o isZero toDur w now = 0) ∧
    (w.len = none → etaOf o isZero toDur w now = 0) ∧
    (isZero (stepsPerSecond o w.est now) = true → etaOf o isZero toDur w now = 0) ∧
    (∀ len, w.finished = false → w.len = some len → isZero (stepsPerSecond o w.est now) = false →
      etaOf o isZero toDur w now = toDur (o.div (o.ofNat (len - w.pos)) (stepsPerSecond o w.est now))) ∧
    (w.len = none ∨ w.finished = true → durationOf o isZero toDur w now = 0) ∧
    (∀ len, w.len = some len → w.finished = false →
      durationOf o isZero toDur w now = min (elapsedOf w now + etaOf o isZero toDur w now) durMax) ∧
    elapsedOf w now = now - w.started := by
  refine ⟨fun h => by simp [etaOf, h], fun h => by simp [etaOf, h], fun h => ?_, fun len hf hl hz => by simp [etaOf, hf, hl, hz],
    fun h => ?_, fun len hl hf => by simp [durationOf, hl, hf, durSatAdd], rfl⟩
  · unfold etaOf
    split
    · rfl
    · split
      · rfl
      · simp [h]
  · rcases h with h | h <;> simp [durationOf, h]

/-- **the estimator of the source is the estimator of these theorems.** `Estimator::{record, reset, steps_per_second}` and
`duration_to_secs`, translated from `src/state.rs` on every run (`tools/rs2lean.py`; `f64` operations become the operations of
the arithmetic `Ops α`, `estimator_weight` its weight function), are the model's `record`, `reset`, `stepsPerSecond` and `secs`
for *every* arithmetic, state, position and instant, and `record` cannot panic. Hence `C09_steady`, `C09_bounded`,
`C09_stall_decay_partial`, `C09_stall_limit` and `C09_reset_forgets` (any ordered field with an exponential weight) and the
bit-exact `Float` correspondence speak about what the source says now. -/
theorem C09_source_estimator {α : Type} (o : Ops α) (e : Est α) (steps now : Nat) :
    (GenBridge.toS e).record o steps now = some ((), GenBridge.toS (record o e steps now)) ∧
    (GenBridge.toS e).reset o now = some ((), GenBridge.toS (reset o e now)) ∧
    (GenBridge.toS e).stepsPerSecond o now = some (stepsPerSecond o e now, GenBridge.toS e) ∧
    Generated.durationToSecs o now = secs o now :=
  ⟨GenBridge.gen_record o e steps now, GenBridge.gen_reset o e now, GenBridge.gen_stepsPerSecond o e now, rfl⟩

/-- **the source as translated**: `estimator_weight(age) = 0.1 ^ (age / 15)` — the base and the weighting period the
Float instance of the model (`Model/Estimator`, compared bit for bit with the crate) hard-codes are the source's,
regenerated on every run -/
theorem C09_source_weight_constants :
    Generated.estimatorWeightSeconds = 15 ∧ Generated.estimatorWeightBase = (1, 10) := by decide

end IndicatifModel.Estimator
