import IndicatifModel.Model.Template
/-!
# C10 — Template parsing is total and preserves literal text
-/
namespace IndicatifModel.Template

/-- the first phase of a step (the big `match (state, c)`) never panics -/
theorem step1_ne_panic (fx : PFix) (s : St) (c : Char) : step1 fx s c ≠ .panic := by
  unfold step1
  cases s.state <;> simp only [] <;> (repeat' split) <;> simp

/-- with the width repair the second phase never panics either -/
theorem step2_ne_panic (fx : PFix) (h9 : fx.f9 = true) (c : Char) (old new : PState) (parts : List Part) (buf : List Char) :
    step2 fx c old new parts buf ≠ .panic := by
  unfold step2
  (repeat' split) <;> simp_all <;> (split <;> simp)

theorem step_ne_panic (fx : PFix) (h9 : fx.f9 = true) (s : St) (c : Char) : step fx s c ≠ .panic := by
  unfold step
  split
  · simp
  · rename_i h; exact absurd h (step1_ne_panic fx s c)
  · split
    · simp
    · rename_i h; exact absurd h (step2_ne_panic fx h9 c _ _ _ _)
    · simp

theorem run_ne_panic (fx : PFix) (h9 : fx.f9 = true) : ∀ (cs : List Char) (s : St), run fx s cs ≠ .panic := by
  intro cs
  induction cs with
  | nil => intro s; simp [run]
  | cons c cs ih =>
    intro s
    unfold run
    split
    · exact ih _
    · simp
    · rename_i h; exact absurd h (step_ne_panic fx h9 s c)

/-- Every string yields `Ok` or `Err`, never a panic, for any parser with the width repair. -/
theorem parse_ne_panic (fx : PFix) (h9 : fx.f9 = true) (cs : List Char) : parse fx cs ≠ .panic := by
  unfold parse
  split
  · split <;> simp
  · simp
  · rename_i h; exact absurd h (run_ne_panic fx h9 cs {})

/-- **C10 (totality).** The parser as it is in the repository now: every string yields `Ok` or
`Err`, never a panic. -/
theorem C10_total (cs : List Char) : parse PFix.current cs ≠ .panic := parse_ne_panic _ rfl cs

/-- **The pinned parser does panic** (candidate F9): a width that does not fit 16 bits. -/
theorem C10_total_fails_unrepaired : parse {} "{bar:70000}".toList = .panic := by decide +kernel

/-- **The pinned parser misplaces the brace** (candidate F10); the repaired one keeps the literal order. -/
theorem C10_brace_order :
    parse {} "abc{ d".toList = .ok [.lit "{abc ".toList, .lit "d".toList] ∧
    parse { f10 := true } "abc{ d".toList = .ok [.lit "abc{ ".toList, .lit "d".toList] := by
  constructor <;> decide +kernel

end IndicatifModel.Template
