import IndicatifModel.Model.Template
import IndicatifModel.Proofs.TemplateFidelity
/-!
# C10 — Template parsing is total and preserves literal text
-/
namespace IndicatifModel.Template

/-- the first phase of a step (the big `match (state, c)`) never panics -/
theorem step1_ne_panic (fx : PFix) (s : St) (c : Char) : step1 fx s c ≠ .panic := by
  unfold step1
  cases s.state <;> simp only [] <;> (repeat' split) <;> simp

/-- with the width repair the second phase never panics either -/
theorem step2_ne_panic (fx : PFix) (h9 : fx.f9 = true) (c : Char) (old new : PState) (parts : List Part) (buf : List Char) :
    step2 fx c old new parts buf ≠ .panic := by
  unfold step2
  (repeat' split) <;> simp_all <;> (split <;> simp)

theorem step_ne_panic (fx : PFix) (h9 : fx.f9 = true) (s : St) (c : Char) : step fx s c ≠ .panic := by
  unfold step
  split
  · simp
  · rename_i h; exact absurd h (step1_ne_panic fx s c)
  · split
    · simp
    · rename_i h; exact absurd h (step2_ne_panic fx h9 c _ _ _ _)
    · simp

theorem run_ne_panic (fx : PFix) (h9 : fx.f9 = true) : ∀ (cs : List Char) (s : St), run fx s cs ≠ .panic := by
  intro cs
  induction cs with
  | nil => intro s; simp [run]
  | cons c cs ih =>
    intro s
    unfold run
    split
    · exact ih _
    · simp
    · rename_i h; exact absurd h (step_ne_panic fx h9 s c)

/-- Every string yields `Ok` or `Err`, never a panic, for any parser with the width repair. -/
theorem parse_ne_panic (fx : PFix) (h9 : fx.f9 = true) (cs : List Char) : parse fx cs ≠ .panic := by
  unfold parse
  split
  · split <;> simp
  · simp
  · rename_i h; exact absurd h (run_ne_panic fx h9 cs {})

/-- **C10 (totality).** The parser as it is in the repository now: every string yields `Ok` or
`Err`, never a panic. -/
theorem C10_total (cs : List Char) : parse PFix.current cs ≠ .panic := parse_ne_panic _ rfl cs

/-- **The pinned parser does panic** (candidate F9): a width that does not fit 16 bits. -/
theorem C10_total_fails_unrepaired : parse {} "{bar:70000}".toList = .panic := by decide +kernel

/-- **The pinned parser misplaces the brace** (candidate F10); the repaired one keeps the literal order. -/
theorem C10_brace_order :
    parse {} "abc{ d".toList = .ok [.lit "{abc ".toList, .lit "d".toList] ∧
    parse { f10 := true } "abc{ d".toList = .ok [.lit "abc{ ".toList, .lit "d".toList] := by
  constructor <;> decide +kernel

/-- **C10 (fidelity).** For every template built from the documented grammar — literal text (any
characters except a line break; braces are written doubled), placeholders
`{key}` / `{key:[<|^|>][width][!][.style[/alt_style]]}` with a key free of whitespace, `}` and `:`, a
width of at most 65535, and line breaks — the parser accepts it and produces exactly the parts the
template denotes: adjacent text as one literal (braces single again), each placeholder with the
alignment, width, truncation flag and style names as written, each line break as a newline part.
(`denote` is defined in `Proofs/TemplateFidelity.lean` without reference to the parser.) -/
theorem C10_faithful (items : List Item) (hok : ∀ i ∈ items, i.ok = true) :
    parse PFix.current (render items) = .ok (denote items) := parse_render _ items hok

/-- non-vacuity: a template with escaped braces, every attribute, and a second line -/
example :
    let sp : Spec := ⟨some .center, some "40".toList, true, some "cyan".toList, some "blue".toList⟩
    let items : List Item := [.text "a{".toList, .ph "bar".toList (some sp), .text "}".toList, .nl, .ph "msg".toList none]
    (∀ i ∈ items, i.ok = true) ∧ render items = "a{{{bar:^40!.cyan/blue}}}\n{msg}".toList ∧
    denote items = [.lit "a{".toList, .ph "bar".toList .center (some 40) true (some "cyan".toList) (some "blue".toList),
      .lit "}".toList, .newline, .ph "msg".toList .left none false none none] := by
  refine ⟨by decide +kernel, by decide +kernel, by decide +kernel⟩

end IndicatifModel.Template
