import IndicatifModel.Model.Template
import IndicatifModel.Proofs.TemplateFidelity
import IndicatifModel.Proofs.Render
import IndicatifModel.Proofs.GenBridgeTpl
/-!
# C10 — Template parsing is total and preserves literal text
-/
namespace IndicatifModel.Template

/-- the first phase of a step (the big `match (state, c)`) never panics -/
theorem step1_ne_panic (fx : PFix) (s : St) (c : Char) : step1 fx s c ≠ .panic := by
  unfold step1
  cases s.state <;> simp only [] <;> (repeat' split) <;> simp

/-- with the width repair the second phase never panics either -/
theorem step2_ne_panic (fx : PFix) (h9 : fx.f9 = true) (c : Char) (old new : PState) (parts : List Part) (buf : List Char) :
    step2 fx c old new parts buf ≠ .panic := by
  unfold step2
  (repeat' split) <;> simp_all <;> (split <;> simp)

theorem step_ne_panic (fx : PFix) (h9 : fx.f9 = true) (s : St) (c : Char) : step fx s c ≠ .panic := by
  unfold step
  split
  · simp
  · rename_i h; exact absurd h (step1_ne_panic fx s c)
  · split
    · simp
    · rename_i h; exact absurd h (step2_ne_panic fx h9 c _ _ _ _)
    · simp

theorem run_ne_panic (fx : PFix) (h9 : fx.f9 = true) : ∀ (cs : List Char) (s : St), run fx s cs ≠ .panic := by
  intro cs
  induction cs with
  | nil => intro s; simp [run]
  | cons c cs ih =>
    intro s
    unfold run
    split
    · exact ih _
    · simp
    · rename_i h; exact absurd h (step_ne_panic fx h9 s c)

/-- Every string yields `Ok` or `Err`, never a panic, for any parser with the width repair. -/
theorem parse_ne_panic (fx : PFix) (h9 : fx.f9 = true) (cs : List Char) : parse fx cs ≠ .panic := by
  unfold parse
  split
  · split <;> simp
  · simp
  · rename_i h; exact absurd h (run_ne_panic fx h9 cs {})

/-- **C10 (totality).** The parser as it is in the repository now: every string yields `Ok` or
`Err`, never a panic. -/
theorem C10_total (cs : List Char) : parse PFix.current cs ≠ .panic := parse_ne_panic _ rfl cs

/-- **The pinned parser does panic** (candidate F9): a width that does not fit 16 bits. -/
theorem C10_total_fails_unrepaired : parse {} "{bar:70000}".toList = .panic := by decide +kernel

/-- **The pinned parser misplaces the brace** (candidate F10); the repaired one keeps the literal order. -/
theorem C10_brace_order :
    parse {} "abc{ d".toList = .ok [.lit "{abc ".toList, .lit "d".toList] ∧
    parse { f10 := true } "abc{ d".toList = .ok [.lit "abc{ ".toList, .lit "d".toList] := by
  constructor <;> decide +kernel

/-- **C10 (fidelity).** For every template built from the documented grammar — literal text (any
characters except a line break; braces are written doubled), placeholders
`{key}` / `{key:[<|^|>][width][!][.style[/alt_style]]}` with a key free of whitespace, `}` and `:`, a
width of at most 65535, and line breaks — the parser accepts it and produces exactly the parts the
template denotes: adjacent text as one literal (braces single again), each placeholder with the
alignment, width, truncation flag and style names as written, each line break as a newline part.
(`denote` is defined in `Proofs/TemplateFidelity.lean` without reference to the parser.) -/
theorem C10_faithful (items : List Item) (hok : ∀ i ∈ items, i.ok = true) :
    parse PFix.current (render items) = .ok (denote items) := parse_render _ items hok

/-- non-vacuity: a template with escaped braces, every attribute, and a second line -/
example :
    let sp : Spec := ⟨some .center, some "40".toList, true, some "cyan".toList, some "blue".toList⟩
    let items : List Item := [.text "a{".toList, .ph "bar".toList (some sp), .text "}".toList, .nl, .ph "msg".toList none]
    (∀ i ∈ items, i.ok = true) ∧ render items = "a{{{bar:^40!.cyan/blue}}}\n{msg}".toList ∧
    denote items = [.lit "a{".toList, .ph "bar".toList .center (some 40) true (some "cyan".toList) (some "blue".toList),
      .lit "}".toList, .newline, .ph "msg".toList .left none false none none] := by
  refine ⟨by decide +kernel, by decide +kernel, by decide +kernel⟩

/-- **the source as translated** (`tools/gen_template.py`, regenerated on every run): the arms of the two `match` expressions
of `Template::from_str_with_tab_width` — states, character pattern, guard, next state, pushed character, block — read off
`src/style.rs` and interpreted with Rust's first-arm-wins rule are, for every input string, the parser these theorems are
about. So `C10_total` and `C10_faithful` speak about what the source says now; an arm that is added, removed, reordered
or edited changes the table (or stops the translator) and this theorem is no longer checked. -/
theorem C10_source_parser (cs : List Char) :
    parseT Generated.parserArms Generated.transitionArms Generated.flushStates cs = parse PFix.current cs :=
  parseT_eq cs

/-- hence the parser read off the source never panics and is faithful on the documented grammar -/
theorem C10_source_total_and_faithful :
    (∀ cs, parseT Generated.parserArms Generated.transitionArms Generated.flushStates cs ≠ .panic) ∧
    (∀ items : List Item, (∀ i ∈ items, i.ok = true) →
      parseT Generated.parserArms Generated.transitionArms Generated.flushStates (render items) = .ok (denote items)) :=
  ⟨fun cs => by rw [C10_source_parser]; exact C10_total cs, fun items hok => by rw [C10_source_parser]; exact C10_faithful items hok⟩

/-! ## the rendering clause: `format_state` walks the parts in order (`Model/Render.lean`, stream C10R) -/
open Render in
/-- **C10 (rendering).** For every parsed template without a wide element and every bar state whose texts hold no line
break: the lines `format_state` hands to the draw target are exactly the in-order concatenation of the literal text and
the placeholder expansions (`linesOf`: a line break part ends a line, text after the last one is a line unless it is
empty) — so put end to end they are the expansions put end to end, and there is one line per line break of the template
plus at most one. -/
theorem C10_render_in_order (env : Env) (parts : List Part)
    (hnw : ∀ p ∈ parts, NotWide env p) (hex : ∀ p ∈ parts, NoNl (expansion env p)) :
    formatState env parts = linesOf env [] parts ∧
    (formatState env parts).flatten = parts.flatMap (expansion env) ∧
    (parts.filter isNewline).length ≤ (formatState env parts).length ∧
    (formatState env parts).length ≤ (parts.filter isNewline).length + 1 := by
  have h : formatState env parts = linesOf env [] parts := by
    rw [formatState_eq]
    have := walk_linesOf env parts {} rfl (by intro g hg; simp at hg) hnw hex
    simpa using this
  refine ⟨h, ?_, ?_, ?_⟩
  · rw [h, linesOf_flatten]; simp
  · rw [h]; exact (linesOf_length env parts []).1
  · rw [h]; exact (linesOf_length env parts []).2

open Render in
/-- **C10 (unknown keys expand to nothing).** A key that is neither a custom key nor one of the arms of the match writes
nothing; with a width the field is that many blanks (the padding of the empty text). -/
theorem C10_unknown_key_expands_to_nothing (env : Env) (key : List Char) (a : Align) (t : Bool) (s sa : Option (List Char))
    (hc : env.custom key = none) (hb : ∀ w, env.builtin key w = none) (h1 : key ≠ wideBarKey) (h2 : key ≠ wideMsgKey) :
    expansion env (.ph key a none t s sa) = [] ∧
    ∀ n, expansion env (.ph key a (some n) t s sa) = Pad.pad [] n (toPad a) t := by
  have hf : ∀ w, (fieldText env key (toPad a) w).1 = [] := by
    intro w; simp [fieldText, hc, hb w, h1, h2]
  exact ⟨by simp [expansion, hf], fun n => by simp [expansion, hf]⟩

open Render in
/-- **C10 (from the template text to the lines).** The two halves composed: a template written in the documented grammar
is parsed to the parts it denotes (`C10_faithful`), and if these hold no wide element the lines are their in-order
concatenation. -/
theorem C10_template_renders_in_order (env : Env) (items : List Item) (hok : ∀ i ∈ items, i.ok = true)
    (hnw : ∀ p ∈ denote items, NotWide env p) (hex : ∀ p ∈ denote items, NoNl (expansion env p)) :
    (match parse PFix.current (render items) with
     | .ok parts => some (formatState env parts)
     | _ => none) = some (linesOf env [] (denote items)) := by
  rw [C10_faithful items hok]
  simp only
  rw [(C10_render_in_order env (denote items) hnw hex).1]

/-- a state for the non-vacuity check below: position 3, no custom keys -/
def exEnv : Render.Env :=
  { W := 20, cw := fun _ => 1, custom := fun _ => none,
    builtin := fun k _ => if k = ['p', 'o', 's'] then some [⟨51, 1, 1⟩] else none,
    msg := [], bar := fun _ => [] }
def exParts : List Part :=
  [.lit ['a', '{'], .ph ['p', 'o', 's'] .right (some 3) false none none, .ph ['x'] .left none false none none, .newline, .lit ['b']]

/-- non-vacuity: two template lines, a padded field, an unknown key, escaped braces -/
example :
    (∀ p ∈ exParts, Render.NotWide exEnv p) ∧ (∀ p ∈ exParts, Render.NoNl (Render.expansion exEnv p)) ∧
    Render.formatState exEnv exParts = [[⟨97, 1, 1⟩, ⟨123, 1, 1⟩, ⟨32, 1, 1⟩, ⟨32, 1, 1⟩, ⟨51, 1, 1⟩], [⟨98, 1, 1⟩]] := by
  refine ⟨by decide, by decide, by decide⟩

end IndicatifModel.Template
