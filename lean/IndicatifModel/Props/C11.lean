import IndicatifModel.Generated.Keys
/-!
# C11 — every documented placeholder key is implemented (regenerated tables)

`Generated/Keys.lean` is rewritten from `src/lib.rs` and `src/style.rs` on every run, so these
theorems are re-checked against what the code says now: a documented key that loses its arm in
`format_state` (it would silently render as nothing), or a new key documented but not implemented,
breaks `C11_keys_total`.
-/
namespace IndicatifModel.Generated

/-- every documented key has an arm in `format_state` -/
theorem C11_keys_total : ∀ k ∈ documentedKeys, k ∈ implementedKeys := by decide

/-- and every implemented key is documented -/
theorem C11_keys_documented : ∀ k ∈ implementedKeys, k ∈ documentedKeys := by decide

/-- no key is listed twice (a duplicated arm would be dead code) -/
theorem C11_keys_nodup : implementedKeys.Nodup ∧ documentedKeys.Nodup := by decide

end IndicatifModel.Generated
