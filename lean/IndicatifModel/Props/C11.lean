import IndicatifModel.Generated.Keys
import IndicatifModel.Model.KeyDoc
import IndicatifModel.Model.KeyValue
import IndicatifModel.Proofs.Render
/-!
# C11 — placeholders: every documented key is implemented, and computes what the documentation says

`Generated/Keys.lean` is rewritten from `src/lib.rs` and `src/style.rs` on every run (`tools/gen_keys.py`), so
these theorems are re-checked against what the code says now.

* `C11_keys_total` / `_documented` / `_nodup`: the documented keys are exactly the arms of `format_state`.
* `C11_arms_as_documented`: for every documented key the arm takes the value the documentation names
  (position, length, completed fraction, elapsed / remaining / total time, rate, message, prefix, tick string)
  and passes it through the public formatter the documentation names, with the documented flags (compact
  durations, `/s`, percentage digits). An arm that reads the wrong value (`{bytes}` from the length), uses
  another formatter or drops a flag breaks this theorem before any test runs.
* `C11_missing_length_is_position`: `len` is `state.len().unwrap_or(pos)` and `pos` is `state.pos()`.

What the values *are* at draw time (getter = rendered value at the same instant, for every state and
history) is the part decided by the correspondence stream: 6 000 key × state × history cases compare the
rendered text with the public getters passed through the public formatters, and the `C11T` stream checks
custom trackers.
-/
namespace IndicatifModel.Generated

/-- every documented key has an arm in `format_state` -/
theorem C11_keys_total : ∀ k ∈ documentedKeys, k ∈ implementedKeys := by decide

/-- and every implemented key is documented -/
theorem C11_keys_documented : ∀ k ∈ implementedKeys, k ∈ documentedKeys := by decide

/-- no key is listed twice (a duplicated arm would be dead code) -/
theorem C11_keys_nodup : implementedKeys.Nodup ∧ documentedKeys.Nodup := by decide

def armOf (table : List Arm) (k : List Nat) : Option Arm := table.find? (fun a => a.key == k)

/-- **Every documented key computes what the documentation says**: source value, formatter and flags of
the arm in `format_state` equal the documented ones. -/
theorem C11_arms_as_documented : ∀ k ∈ documentedKeys, armOf implementedArms k = armOf documentedArms k ∧ (armOf documentedArms k).isSome := by
  decide +kernel

/-- the table above lists exactly the documented keys -/
theorem C11_spec_covers_documented : documentedArms.map (·.key) = documentedKeys := by decide +kernel

/-- **A missing length renders as the position**: the two definitions in front of the match -/
theorem C11_missing_length_is_position : posIsPosition = true ∧ lenFallsBackToPos = true := by decide

/-! ## the values: what each documented key renders from the getter values (`Model/KeyValue.lean`, stream C11R) -/
open KeyValue

/-- **the arms in the source render what the documented arms render**: for every documented key the text computed from
the table regenerated from `src/style.rs` equals the text computed from the documented table, for all getter values -/
theorem C11_source_key_text (v : Vals) (k : List Char) (w : Option Nat) (hk : keyCodes k ∈ documentedKeys) :
    keyText implementedArms v k w = keyText documentedArms v k w := by
  have h := (C11_arms_as_documented (keyCodes k) hk).1
  unfold armOf at h
  unfold keyText
  rw [h]

/-- **C11 (values).** Every documented key, for all getter values `v` (position, length or none, elapsed / remaining /
total time, rate, message, prefix, tick string) and every width field `w`: the pos / len / bytes families are the
getters through the public formatters, the time keys the formatted getter values, `per_sec` the rate with the precision
of the width field (4 without one) and `/s`, msg / prefix / spinner the current texts. -/
theorem C11_key_values (v : Vals) (w : Option Nat) :
    let T := keyText documentedArms v
    T ['p','o','s'] w = some (Format.digits v.pos) ∧
    T ['h','u','m','a','n','_','p','o','s'] w = some (Format.humanCount v.pos) ∧
    T ['l','e','n'] w = some (Format.digits (v.len.getD v.pos)) ∧
    T ['h','u','m','a','n','_','l','e','n'] w = some (Format.humanCount (v.len.getD v.pos)) ∧
    T ['p','e','r','c','e','n','t'] w = some (Format.fmtFixed (percentBits v.pos v.len) 0) ∧
    T ['p','e','r','c','e','n','t','_','p','r','e','c','i','s','e'] w = some (Format.fmtFixed (percentBits v.pos v.len) 3) ∧
    T ['b','y','t','e','s'] w = some (Format.humanBytes v.pos true) ∧
    T ['t','o','t','a','l','_','b','y','t','e','s'] w = some (Format.humanBytes (v.len.getD v.pos) true) ∧
    T ['d','e','c','i','m','a','l','_','b','y','t','e','s'] w = some (Format.humanBytes v.pos false) ∧
    T ['d','e','c','i','m','a','l','_','t','o','t','a','l','_','b','y','t','e','s'] w = some (Format.humanBytes (v.len.getD v.pos) false) ∧
    T ['b','i','n','a','r','y','_','b','y','t','e','s'] w = some (Format.humanBytes v.pos true) ∧
    T ['b','i','n','a','r','y','_','t','o','t','a','l','_','b','y','t','e','s'] w = some (Format.humanBytes (v.len.getD v.pos) true) ∧
    T ['e','l','a','p','s','e','d','_','p','r','e','c','i','s','e'] w = some (Format.formattedDuration (v.elapsed / Format.NS)) ∧
    T ['e','l','a','p','s','e','d'] w = some (Format.humanDuration v.elapsed true) ∧
    T ['e','t','a','_','p','r','e','c','i','s','e'] w = some (Format.formattedDuration (v.eta / Format.NS)) ∧
    T ['e','t','a'] w = some (Format.humanDuration v.eta true) ∧
    T ['d','u','r','a','t','i','o','n','_','p','r','e','c','i','s','e'] w = some (Format.formattedDuration (v.duration / Format.NS)) ∧
    T ['d','u','r','a','t','i','o','n'] w = some (Format.humanDuration v.duration true) ∧
    T ['p','e','r','_','s','e','c'] w = some (Format.humanFloatCount v.perSecBits (w.getD 4) ++ ['/', 's']) ∧
    T ['b','y','t','e','s','_','p','e','r','_','s','e','c'] w = some (Format.humanBytes (f64AsU64 v.perSecBits) true ++ ['/', 's']) ∧
    T ['d','e','c','i','m','a','l','_','b','y','t','e','s','_','p','e','r','_','s','e','c'] w = some (Format.humanBytes (f64AsU64 v.perSecBits) false ++ ['/', 's']) ∧
    T ['b','i','n','a','r','y','_','b','y','t','e','s','_','p','e','r','_','s','e','c'] w = some (Format.humanBytes (f64AsU64 v.perSecBits) true ++ ['/', 's']) ∧
    T ['m','s','g'] w = some v.msg ∧ T ['p','r','e','f','i','x'] w = some v.pfx ∧ T ['s','p','i','n','n','e','r'] w = some v.tick ∧
    T ['b','a','r'] w = some (barText v (w.getD 20)) := by
  refine ⟨rfl, rfl, rfl, rfl, rfl, rfl, rfl, rfl, rfl, rfl, rfl, rfl, rfl, rfl, rfl, rfl, rfl, rfl, rfl, rfl, rfl, rfl, rfl, rfl, rfl, rfl⟩

/-- **C11 (a missing length renders as the position)**, key by key: with no length the five length keys render what the
corresponding position keys render -/
theorem C11_missing_length_renders_position (v : Vals) (w : Option Nat) (h : v.len = none) :
    let T := keyText documentedArms v
    T ['l','e','n'] w = T ['p','o','s'] w ∧
    T ['h','u','m','a','n','_','l','e','n'] w = T ['h','u','m','a','n','_','p','o','s'] w ∧
    T ['t','o','t','a','l','_','b','y','t','e','s'] w = T ['b','y','t','e','s'] w ∧
    T ['d','e','c','i','m','a','l','_','t','o','t','a','l','_','b','y','t','e','s'] w = T ['d','e','c','i','m','a','l','_','b','y','t','e','s'] w ∧
    T ['b','i','n','a','r','y','_','t','o','t','a','l','_','b','y','t','e','s'] w = T ['b','i','n','a','r','y','_','b','y','t','e','s'] w := by
  have hv := C11_key_values v w
  simp only at hv
  obtain ⟨h1, h2, h3, h4, _, _, h7, h8, h9, h10, h11, h12, _⟩ := hv
  simp only [h1, h2, h3, h4, h7, h8, h9, h10, h11, h12, h, Option.getD_none, and_self]

/-- **C11 (in the frame).** In the rendering walk a placeholder of a key that is not overridden by a custom key and is not
one of the two wide keys contributes exactly the key's text (as glyphs), padded or truncated to its width field -/
theorem C11_placeholder_shows_key_text (table : List Arm) (v : Vals) (W tab : Nat) (cw : Nat → Nat) (custom : List Char → Option (List Pad.G))
    (k : List Char) (a : Template.Align) (t : Bool) (s sa : Option (List Char))
    (hc : custom k = none) (h1 : k ≠ Render.wideBarKey) (h2 : k ≠ Render.wideMsgKey) :
    let g : Char → Pad.G := fun c => { cp := c.toNat, w := cw c.toNat, b := Render.utf8Len c.toNat }
    Render.expansion (envOf table v W tab cw custom) (.ph k a none t s sa) = ((keyText table v k none).getD []).map g ∧
    ∀ n, Render.expansion (envOf table v W tab cw custom) (.ph k a (some n) t s sa)
      = Pad.pad (((keyText table v k (some n)).getD []).map g) n (Render.toPad a) t := by
  have hf : ∀ w, (Render.fieldText (envOf table v W tab cw custom) k (Render.toPad a) w).1
      = ((keyText table v k w).getD []).map (fun c => ({ cp := c.toNat, w := cw c.toNat, b := Render.utf8Len c.toNat } : Pad.G)) := by
    intro w
    simp only [Render.fieldText, envOf, hc, h1, h2, if_false]
    cases keyText table v k w <;> simp
  exact ⟨by simp [Render.expansion, hf], fun n => by simp [Render.expansion, hf]⟩

/-- non-vacuity: position 1234 of 5000 after 61.5 s -/
example :
    let v : Vals := Vals.mk 1234 (some 5000) 61500000000 0 0 0 [] [] [] [] 1
    keyText documentedArms v ['h','u','m','a','n','_','p','o','s'] none = some ['1', ',', '2', '3', '4'] ∧
    keyText documentedArms v ['e','l','a','p','s','e','d','_','p','r','e','c','i','s','e'] none = some ['0','0',':','0','1',':','0','1'] ∧
    keyText documentedArms v ['e','l','a','p','s','e','d'] none = some ['6', '2', 's'] := by
  refine ⟨by decide +kernel, by decide +kernel, by decide +kernel⟩

end IndicatifModel.Generated
