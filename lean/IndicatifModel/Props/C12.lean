import IndicatifModel.Model.Pad
/-!
# C12 — Field width, alignment and truncation contract
-/
namespace IndicatifModel.Pad

theorem cols_spaces (n : Nat) : cols (spaces n) = n := by
  induction n with
  | zero => rfl
  | succ n ih =>
    simp only [spaces, List.replicate_succ, cols, List.map_cons, List.sum_cons] at ih ⊢
    omega

theorem cols_append (a b : List G) : cols (a ++ b) = cols a + cols b := by
  simp [cols, List.map_append, List.sum_append]

/-- content that fits is padded to exactly `width` columns, on the side(s) chosen by the alignment -/
theorem C12_pad (s : List G) (width : Nat) (align : Align) (truncate : Bool) (h : cols s ≤ width) :
    cols (pad s width align truncate) = width ∧
    ∃ l r, pad s width align truncate = spaces l ++ s ++ spaces r ∧ l + r = width - cols s ∧
      (align = .left → l = 0) ∧ (align = .right → r = 0) ∧ (align = .center → l = (width - cols s) / 2) := by
  have hex : cols s - width = 0 := by omega
  have hpad : pad s width align truncate =
      spaces (match align with | .left => 0 | .right => width - cols s | .center => (width - cols s) / 2) ++ s ++
      spaces (match align with | .left => width - cols s | .right => 0 | .center => (width - cols s) - (width - cols s) / 2) := by
    unfold pad
    simp only [hex, Nat.lt_irrefl, false_and, if_false]
    cases align <;> rfl
  rw [hpad]
  refine ⟨?_, _, _, rfl, ?_, ?_, ?_, ?_⟩
  · rw [cols_append, cols_append, cols_spaces, cols_spaces]; cases align <;> simp only [] <;> omega
  · cases align <;> simp only [] <;> omega
  · intro h; subst h; rfl
  · intro h; subst h; rfl
  · intro h; subst h; rfl

/-- content wider than the field is emitted unshortened unless truncation was requested -/
theorem C12_no_trunc (s : List G) (width : Nat) (align : Align) (h : width < cols s) : pad s width align false = s := by
  unfold pad
  have : cols s - width > 0 := by omega
  simp [this]

/-- **Truncation by byte offsets is wrong for non-ASCII content** (candidate F11): five two-byte,
one-column glyphs truncated to three columns keep four columns (start / end) or all five (middle). -/
theorem C12_trunc_fails_non_ascii :
    let s : List G := List.replicate 5 { cp := 233, w := 1, b := 2 }
    cols (pad s 3 .left true) = 4 ∧ cols (pad s 3 .right true) = 4 ∧ cols (pad s 3 .center true) = 5 := by
  decide

end IndicatifModel.Pad
