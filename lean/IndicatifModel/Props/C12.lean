import IndicatifModel.Proofs.GenBridgePad
import IndicatifModel.Model.Pad
import IndicatifModel.Proofs.Render
/-!
# C12 — Field width, alignment and truncation contract
-/
namespace IndicatifModel.Pad

theorem cols_spaces (n : Nat) : cols (spaces n) = n := by
  induction n with
  | zero => rfl
  | succ n ih =>
    simp only [spaces, List.replicate_succ, cols, List.map_cons, List.sum_cons] at ih ⊢
    omega

theorem cols_append (a b : List G) : cols (a ++ b) = cols a + cols b := by
  simp [cols, List.map_append, List.sum_append]

/-- content that fits is padded to exactly `width` columns, on the side(s) chosen by the alignment -/
theorem C12_pad (s : List G) (width : Nat) (align : Align) (truncate : Bool) (h : cols s ≤ width) :
    cols (pad s width align truncate) = width ∧
    ∃ l r, pad s width align truncate = spaces l ++ s ++ spaces r ∧ l + r = width - cols s ∧
      (align = .left → l = 0) ∧ (align = .right → r = 0) ∧ (align = .center → l = (width - cols s) / 2) := by
  have hex : cols s - width = 0 := by omega
  have hpad : pad s width align truncate =
      spaces (match align with | .left => 0 | .right => width - cols s | .center => (width - cols s) / 2) ++ s ++
      spaces (match align with | .left => width - cols s | .right => 0 | .center => (width - cols s) - (width - cols s) / 2) := by
    unfold pad
    simp only [hex, Nat.lt_irrefl, false_and, if_false]
    cases align <;> rfl
  rw [hpad]
  refine ⟨?_, _, _, rfl, ?_, ?_, ?_, ?_⟩
  · rw [cols_append, cols_append, cols_spaces, cols_spaces]; cases align <;> simp only [] <;> omega
  · cases align <;> simp only [] <;> omega
  · intro h; subst h; rfl
  · intro h; subst h; rfl
  · intro h; subst h; rfl

/-- content wider than the field is emitted unshortened unless truncation was requested -/
theorem C12_no_trunc (s : List G) (width : Nat) (align : Align) (h : width < cols s) : pad s width align false = s := by
  unfold pad
  have : cols s - width > 0 := by omega
  simp [this]

/-- content in which every character is one byte and one column wide -/
def Plain (s : List G) : Prop := ∀ g ∈ s, g.b = 1 ∧ g.w = 1

theorem plain_cols (s : List G) (h : Plain s) : cols s = s.length ∧ bytes s = s.length := by
  induction s with
  | nil => exact ⟨rfl, rfl⟩
  | cons g gs ih =>
    have hg := h g (by simp)
    have ih' := ih (fun x hx => h x (by simp [hx]))
    simp only [cols, bytes, List.map_cons, List.sum_cons, List.length_cons] at ih' ⊢
    omega

/-- on plain content the byte slice is the character slice -/
theorem byteSlice_go_plain (start stop : Nat) : ∀ (rest : List G) (off : Nat) (acc : List G), Plain rest →
    off ≤ stop → stop ≤ off + rest.length → start ≤ stop →
    byteSlice.go start stop off acc rest = some (acc.reverse ++ (rest.drop (start - off)).take (stop - max start off)) := by
  intro rest
  induction rest with
  | nil =>
    intro off acc _ h1 h2 h3
    have : off = stop := by simp at h2; omega
    subst this
    simp only [byteSlice.go, true_and, h3, if_true]
    split <;> simp_all
  | cons g gs ih =>
    intro off acc hp h1 h2 h3
    have hg := (hp g (by simp)).1
    have hp' : Plain gs := fun x hx => hp x (by simp [hx])
    simp only [byteSlice.go]
    by_cases he : off = stop
    · subst he
      have hm : max start off = off := Nat.max_eq_right h3
      simp [h3, hm]
    · simp only [he, if_false]
      by_cases hlt : off < start
      · simp only [hlt, if_true, hg]
        have h4 : off + 1 ≤ start := hlt
        simp only [h4, if_true]
        rw [ih (off + 1) acc hp' (by omega) (by simp at h2; omega) h3]
        have hd : start - off = (start - (off + 1)) + 1 := by omega
        have hm1 : max start off = start := Nat.max_eq_left (by omega)
        have hm2 : max start (off + 1) = start := Nat.max_eq_left h4
        rw [hd, List.drop_succ_cons, hm1, hm2]
      · simp only [hlt, if_false, hg]
        have h4 : off + 1 ≤ stop := by omega
        simp only [h4, if_true]
        rw [ih (off + 1) (g :: acc) hp' h4 (by simp at h2; omega) h3]
        have hd0 : start - off = 0 := by omega
        have hd1 : start - (off + 1) = 0 := by omega
        have hm1 : max start off = off := Nat.max_eq_right (by omega)
        have hm2 : max start (off + 1) = off + 1 := Nat.max_eq_right (by omega)
        have ht : stop - off = (stop - (off + 1)) + 1 := by omega
        rw [hd0, hd1, hm1, hm2, ht]
        simp [List.take_succ_cons]

theorem byteSlice_plain (s : List G) (h : Plain s) (start stop : Nat) (h1 : start ≤ stop) (h2 : stop ≤ s.length) :
    byteSlice s start stop = some ((s.drop start).take (stop - start)) := by
  unfold byteSlice
  have hb := (plain_cols s h).2
  have hn : ¬ (start > stop ∨ stop > bytes s) := by omega
  simp only [hn, if_false]
  rw [byteSlice_go_plain start stop s 0 [] h (Nat.zero_le _) (by omega) h1]
  simp [Nat.max_eq_left (Nat.zero_le start)]

/-- **C12, truncation — `_partial`: content whose characters are all one byte and one column wide.**
Too wide and `!` requested: exactly `width` columns are kept, from the start (`<`), the end (`>`) or
the middle (`^`, dropping `⌊excess/2⌋` columns in front).

The full statement (every content, including multi-byte, double-width and combining characters and
ANSI sequences) does not hold for the code as it is — `C12_trunc_fails_non_ascii` below — and is
listed as finding F11. -/
theorem C12_trunc_ascii_partial (s : List G) (hp : Plain s) (width : Nat) (align : Align) (h : width < cols s) :
    let excess := cols s - width
    let skip := match align with | .left => 0 | .right => excess | .center => excess / 2
    pad s width align true = (s.drop skip).take width ∧ cols (pad s width align true) = width := by
  intro excess skip
  have ⟨hc, hb⟩ := plain_cols s hp
  have hex : cols s - width > 0 := by omega
  have hpad : pad s width align true = (s.drop skip).take width := by
    unfold pad
    simp only [hex, true_and, Bool.not_eq_true, Bool.true_eq_false, not_false_eq_true, if_false]
    cases align with
    | left =>
      simp only []
      rw [byteSlice_plain s hp 0 (bytes s - (cols s - width)) (Nat.zero_le _) (by omega)]
      have : bytes s - (cols s - width) - 0 = width := by omega
      simp [this, skip]
    | right =>
      simp only []
      rw [byteSlice_plain s hp (cols s - width) (bytes s) (by omega) (by omega)]
      have : bytes s - (cols s - width) = width := by omega
      simp [this, skip, excess]
    | center =>
      simp only []
      have hd := Nat.div_le_self (cols s - width) 2
      rw [byteSlice_plain s hp ((cols s - width) / 2) (bytes s - (cols s - width - (cols s - width) / 2)) (by omega) (by omega)]
      have : bytes s - (cols s - width - (cols s - width) / 2) - (cols s - width) / 2 = width := by omega
      simp [this, skip, excess]
  refine ⟨hpad, ?_⟩
  rw [hpad]
  have hplain : Plain ((s.drop skip).take width) := fun g hg => hp g (List.mem_of_mem_drop (List.mem_of_mem_take hg))
  rw [(plain_cols _ hplain).1, List.length_take, List.length_drop]
  have hskip : skip ≤ cols s - width := by
    cases align <;> simp only [skip, excess] <;> first | omega | exact Nat.div_le_self _ _
  omega

/-- non-vacuity -/
example : Plain [⟨97, 1, 1⟩, ⟨98, 1, 1⟩, ⟨99, 1, 1⟩, ⟨100, 1, 1⟩, ⟨101, 1, 1⟩] ∧
    pad [⟨97, 1, 1⟩, ⟨98, 1, 1⟩, ⟨99, 1, 1⟩, ⟨100, 1, 1⟩, ⟨101, 1, 1⟩] 2 .center true = [⟨98, 1, 1⟩, ⟨99, 1, 1⟩] := by
  constructor
  · intro g hg; simp at hg; rcases hg with h | h | h | h | h <;> subst h <;> exact ⟨rfl, rfl⟩
  · decide

/-- **Truncation by byte offsets is wrong for non-ASCII content** (candidate F11): five two-byte,
one-column glyphs truncated to three columns keep four columns (start / end) or all five (middle). -/
theorem C12_trunc_fails_non_ascii :
    let s : List G := List.replicate 5 { cp := 233, w := 1, b := 2 }
    cols (pad s 3 .left true) = 4 ∧ cols (pad s 3 .right true) = 4 ∧ cols (pad s 3 .center true) = 5 := by
  decide

/-- **`{wide_msg}` is a truncating field as wide as the rest of the line leaves** (`WideElement::Message::expand`: the field
is `PaddedStringDisplay { width: left, truncate: true }` with `left = terminal width − columns of the rest`): for one-byte,
one-column content it occupies exactly the columns left, so that rest + field = terminal width whenever the rest fits
(before the trailing blanks of a last field are trimmed) -/
theorem C12_wide_msg_fills_the_line (s : List G) (hp : Plain s) (W rest : Nat) (align : Align) (hfit : rest ≤ W) :
    rest + cols (pad s (W - rest) align true) = W := by
  by_cases h : cols s ≤ W - rest
  · rw [(C12_pad s (W - rest) align true h).1]; omega
  · rw [(C12_trunc_ascii_partial s hp (W - rest) align (by omega)).2]; omega

/-- **the source as translated** (`tools/rs2lean.py`, regenerated on every run): the integer skeleton of
`<PaddedStringDisplay as Display>::fmt` — which branch is taken, the byte bounds of the truncating slice for each alignment, the
left and right paddings — fed the column width and the byte length of the content, yields exactly the model's `pad`; its byte
arithmetic (`self.str.len() - excess`) cannot underflow because no string has more columns than bytes. So `C12_pad`,
`C12_no_trunc`, `C12_trunc_ascii_partial` and the F11 witness speak about what the source says now. -/
theorem C12_source_pad (s : List G) (width : Nat) (align : Align) (truncate : Bool) (hcb : cols s ≤ bytes s) :
    (Generated.paddedFmt (cols s) (bytes s) width truncate (GenBridge.toGenAlign align)).map (GenBridge.applyAction s)
      = some (pad s width align truncate) :=
  GenBridge.gen_pad s width align truncate hcb

/-! ## the wide message inside its line (`Model/Render.lean`, stream C10R) -/
open Render in
/-- **C12 (`wide_msg` in its line).** For every template line `l {wide_msg} r` whose other parts are ordinary (no second wide
element, no line break, no NUL in their texts) and every message without a line break: the line handed to the draw target
is the text of `l`, then the message as a *truncating field of exactly the columns the rest of the line leaves*
(`W − columns(l) − columns(r)`, the alignment written in the placeholder; trailing blanks trimmed when nothing follows), then
the text of `r`. If the message consists of one-byte one-column characters, something follows the field and the rest fits,
the line is exactly as wide as the terminal. -/
theorem C12_wide_msg_in_line (env : Env) (l r : List Template.Part) (al : Template.Align) (t : Bool) (s sa : Option (List Char))
    (hc : env.custom wideMsgKey = none)
    (hl : ∀ p ∈ l, PlainPart env p) (hr : ∀ p ∈ r, PlainPart env p)
    (hL : NoNul (l.flatMap (expansion env))) (hR : NoNul (r.flatMap (expansion env)))
    (hLn : NoNl (l.flatMap (expansion env))) (hRn : NoNl (r.flatMap (expansion env))) (hm : NoNl env.msg) :
    formatState env (l ++ [.ph wideMsgKey al none t s sa] ++ r) =
      [l.flatMap (expansion env) ++ wideMsgField env (toPad al) (l.flatMap (expansion env)) (r.flatMap (expansion env)) ++ r.flatMap (expansion env)] ∧
    (Plain env.msg → r.flatMap (expansion env) ≠ [] → cols (l.flatMap (expansion env)) + cols (r.flatMap (expansion env)) ≤ env.W →
      cols (l.flatMap (expansion env) ++ wideMsgField env (toPad al) (l.flatMap (expansion env)) (r.flatMap (expansion env)) ++ r.flatMap (expansion env)) = env.W) := by
  refine ⟨formatState_wide_msg_line env l r al t s sa hc hl hr hL hR hLn hRn hm, ?_⟩
  intro hp hne hfit
  have hfill := C12_wide_msg_fills_the_line env.msg hp env.W (cols (l.flatMap (expansion env)) + cols (r.flatMap (expansion env))) (toPad al) hfit
  unfold wideMsgField
  rw [if_neg hne, cols_append, cols_append, cols_append]
  omega

def exEnv : Render.Env :=
  { W := 8, cw := fun _ => 1, custom := fun _ => none, builtin := fun _ _ => none,
    msg := [⟨97, 1, 1⟩, ⟨98, 1, 1⟩, ⟨99, 1, 1⟩], bar := fun _ => [] }

/-- non-vacuity: `[{wide_msg:>}]` on 8 columns with a 3-letter message -/
example :
    Render.formatState exEnv [.lit ['['], .ph Render.wideMsgKey .right none false none none, .lit [']']]
      = [[⟨91, 1, 1⟩, ⟨32, 1, 1⟩, ⟨32, 1, 1⟩, ⟨32, 1, 1⟩, ⟨97, 1, 1⟩, ⟨98, 1, 1⟩, ⟨99, 1, 1⟩, ⟨93, 1, 1⟩]] := by
  decide

end IndicatifModel.Pad
