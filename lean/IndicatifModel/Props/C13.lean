import IndicatifModel.Proofs.BarGeoBasic
import IndicatifModel.Proofs.GenBridgeGeo
import IndicatifModel.Proofs.Render
import Mathlib.Tactic.Linarith
import Mathlib.Tactic.Positivity
import Mathlib.Algebra.Order.Field.Basic
import Mathlib.Algebra.Order.Floor.Semiring
import Mathlib.Data.Rat.Floor
import Mathlib.Tactic.FieldSimp
import Mathlib.Tactic.Ring

/-!
# C13 — clauses that depend on the rounding behaviour of `f32`

`IEEE A` collects the textbook properties of round-to-nearest arithmetic that the proofs use: every
operation returns the rounding of the exact result, rounding is monotone and leaves the integers up
to 2²⁴ unchanged.  All values reachable from `u64` positions and lengths are finite, so a total
valuation into `ℚ` is adequate.  That the platform's `f32` has these properties is a trusted-base
item; the transcription itself is tied to the crate by the correspondence stream.
-/
namespace IndicatifModel.BarGeo

structure IEEE {α : Type} (A : Arith α) where
  val : α → ℚ
  rnd : ℚ → ℚ
  rnd_mono : ∀ x y, x ≤ y → rnd x ≤ rnd y
  rnd_fix : ∀ n : ℕ, n ≤ 2 ^ 24 → rnd n = n
  val_ofNat : ∀ n : ℕ, val (A.ofNat n) = rnd n
  val_mul : ∀ a b, val (A.mul a b) = rnd (val a * val b)
  val_div : ∀ a b, val b ≠ 0 → val (A.div a b) = rnd (val a / val b)
  lt_iff : ∀ a b, A.lt a b = true ↔ val a < val b
  trunc_eq : ∀ a, 0 ≤ val a → A.trunc a = ⌊val a⌋₊
  val_zero : val A.zero = 0
  val_one : val A.one = 1
  /-- points of the binary32 grid (24-bit significand, non-positive exponent) are not changed by rounding -/
  rnd_grid : ∀ m j : ℕ, m < 2 ^ 24 → rnd ((m : ℚ) / 2 ^ j) = (m : ℚ) / 2 ^ j
  /-- rounding goes to a nearest grid point: no grid point is closer to the argument than the result -/
  rnd_nearest : ∀ (x : ℚ) (m j : ℕ), m < 2 ^ 24 → |rnd x - x| ≤ |(m : ℚ) / 2 ^ j - x|

theorem exists_scale : ∀ (fuel c : ℕ), 1 ≤ c → c < 2 ^ 24 → 2 ^ 23 ≤ c * 2 ^ fuel →
    ∃ j, 2 ^ 23 ≤ c * 2 ^ j ∧ c * 2 ^ j < 2 ^ 24
  | 0, c, _, h2, h3 => ⟨0, by simpa using h3, by simpa using h2⟩
  | fuel + 1, c, h1, h2, h3 => by
    by_cases hc : 2 ^ 23 ≤ c
    · exact ⟨0, by simpa using hc, by simpa using h2⟩
    · have h2' : 2 * c < 2 ^ 24 := by
        have : (2:ℕ) ^ 24 = 2 * 2 ^ 23 := by norm_num
        omega
      have h3' : 2 ^ 23 ≤ 2 * c * 2 ^ fuel := by
        have : c * 2 ^ (fuel + 1) = 2 * c * 2 ^ fuel := by rw [pow_succ]; ring
        omega
      obtain ⟨j, hj1, hj2⟩ := exists_scale fuel (2 * c) (by omega) h2' h3'
      refine ⟨j + 1, ?_, ?_⟩
      · have : c * 2 ^ (j + 1) = 2 * c * 2 ^ j := by rw [pow_succ]; ring
        omega
      · have : c * 2 ^ (j + 1) = 2 * c * 2 ^ j := by rw [pow_succ]; ring
        omega


variable {α : Type} {A : Arith α} (I : IEEE A)
include I

theorem IEEE.rnd_zero : I.rnd 0 = 0 := by simpa using I.rnd_fix 0 (by positivity)
theorem IEEE.rnd_one : I.rnd 1 = 1 := by simpa using I.rnd_fix 1 (by norm_num)

theorem IEEE.rnd_nat_pos (n : ℕ) (h : 1 ≤ n) : 1 ≤ I.rnd n := by
  have := I.rnd_mono 1 n (by exact_mod_cast h)
  rwa [I.rnd_one] at this

/-- the completed fraction lies in `[0, 1]` -/
theorem fraction_range (pos : ℕ) (len : Option ℕ) :
    0 ≤ I.val (fraction A pos len) ∧ I.val (fraction A pos len) ≤ 1 := by
  unfold fraction
  split
  · simp [I.val_zero]
  · simp [I.val_one]
  · split
    · simp [I.val_zero]
    · dsimp only
      split
      · simp [I.val_zero]
      · split
        · simp [I.val_one]
        · rename_i h0 h1
          rw [Bool.not_eq_true] at h0 h1
          have a : ¬ I.val _ < I.val A.zero := fun h => by
            rw [← I.lt_iff] at h; rw [h] at h0; cases h0
          have b : ¬ I.val A.one < I.val _ := fun h => by
            rw [← I.lt_iff] at h; rw [h] at h1; cases h1
          rw [I.val_zero] at a; rw [I.val_one] at b
          exact ⟨not_lt.mp a, not_lt.mp b⟩

/-- complete (`pos ≥ len > 0`, or `len = 0`) ⇒ the fraction is exactly 1 -/
theorem fraction_complete (pos l : ℕ) (h : l ≤ pos) : I.val (fraction A pos (some l)) = 1 := by
  unfold fraction
  cases l with
  | zero => simp [I.val_one]
  | succ k =>
    have hpos : pos ≠ 0 := by omega
    simp only [hpos, if_false]
    have hl1 : 1 ≤ I.rnd ((k + 1 : ℕ) : ℚ) := I.rnd_nat_pos (k + 1) (by omega)
    have hle : I.rnd ((k + 1 : ℕ) : ℚ) ≤ I.rnd (pos : ℚ) := I.rnd_mono _ _ (by exact_mod_cast h)
    have hne : I.val (A.ofNat (k + 1)) ≠ 0 := by rw [I.val_ofNat]; linarith
    have hq : 1 ≤ I.val (A.div (A.ofNat pos) (A.ofNat (k + 1))) := by
      rw [I.val_div _ _ hne, I.val_ofNat, I.val_ofNat]
      have : (1 : ℚ) ≤ I.rnd (pos : ℚ) / I.rnd ((k + 1 : ℕ) : ℚ) := by
        rw [le_div_iff₀ (by linarith)]; linarith
      have := I.rnd_mono _ _ this
      rwa [I.rnd_one] at this
    split
    · rename_i hlt; rw [I.lt_iff, I.val_zero] at hlt; linarith
    · split
      · exact I.val_one
      · rename_i h1
        rw [Bool.not_eq_true] at h1
        have b : ¬ I.val A.one < I.val (A.div (A.ofNat pos) (A.ofNat (k + 1))) := fun h => by
          rw [← I.lt_iff] at h; rw [h] at h1; cases h1
        rw [I.val_one] at b
        exact le_antisymm (not_lt.mp b) hq

/-- value of the fill for a fraction in `[0,1]` and at most 2²⁴ cells: between 0 and the cell count -/
theorem fill_range (f : α) (cells : ℕ) (hc : cells ≤ 2 ^ 24) (h0 : 0 ≤ I.val f) (h1 : I.val f ≤ 1) :
    0 ≤ I.val (A.mul f (A.ofNat cells)) ∧ I.val (A.mul f (A.ofNat cells)) ≤ cells := by
  rw [I.val_mul, I.val_ofNat, I.rnd_fix cells hc]
  constructor
  · have := I.rnd_mono 0 (I.val f * cells) (by positivity)
    rwa [I.rnd_zero] at this
  · have := I.rnd_mono (I.val f * cells) cells (by nlinarith [(Nat.cast_nonneg cells : (0 : ℚ) ≤ cells)])
    rwa [I.rnd_fix cells hc] at this

/-- **C13, cell count**: `{bar:N}` always occupies exactly `⌊N/c⌋` cells -/
theorem C13_cells (pos : ℕ) (len : Option ℕ) (w cw n : ℕ) (hc : w / cw ≤ 2 ^ 24) :
    ((formatBar A (fraction A pos len) w cw n).cells n).length = w / cw := by
  apply C13_cells_partial
  obtain ⟨h0, h1⟩ := fraction_range I pos len
  obtain ⟨g0, g1⟩ := fill_range I _ (w / cw) hc h0 h1
  rw [I.trunc_eq _ g0]
  exact Nat.floor_le_of_le g1

/-- **C13, full**: whenever `position ≥ length`, every cell is filled and there is no partial cell -/
theorem C13_full (pos l : ℕ) (h : l ≤ pos) (w cw n : ℕ) (hc : w / cw ≤ 2 ^ 24) :
    formatBar A (fraction A pos (some l)) w cw n = { filled := w / cw, cur := none, bg := 0 } := by
  have hf := fraction_complete I pos l h
  have hfill : I.val (A.mul (fraction A pos (some l)) (A.ofNat (w / cw))) = (w / cw : ℕ) := by
    rw [I.val_mul, hf, I.val_ofNat, I.rnd_fix _ hc, one_mul, I.rnd_fix _ hc]
  have htr : A.trunc (A.mul (fraction A pos (some l)) (A.ofNat (w / cw))) = w / cw := by
    rw [I.trunc_eq _ (by rw [hfill]; positivity), hfill, Nat.floor_natCast]
  unfold formatBar
  simp only [htr, Nat.lt_irrefl, decide_false, Bool.and_false, Bool.false_eq_true, if_false,
    Nat.zero_ne_one, Nat.sub_self]

/-- the clamp of `fraction`, in terms of values -/
theorem clamp_val (q : α) :
    I.val (if A.lt q A.zero = true then A.zero else if A.lt A.one q = true then A.one else q)
      = max 0 (min 1 (I.val q)) := by
  split
  · rename_i h; rw [I.lt_iff, I.val_zero] at h
    rw [I.val_zero, max_eq_left]; exact le_trans (min_le_right _ _) h.le
  · rename_i h0
    have a : 0 ≤ I.val q := by
      rcases lt_or_ge (I.val q) 0 with h | h
      · exact absurd ((I.lt_iff q A.zero).mpr (by rwa [I.val_zero])) h0
      · exact h
    split
    · rename_i h; rw [I.lt_iff, I.val_one] at h
      rw [I.val_one, min_eq_left h.le, max_eq_right (by norm_num)]
    · rename_i h1
      have b : I.val q ≤ 1 := by
        rcases lt_or_ge 1 (I.val q) with h | h
        · exact absurd ((I.lt_iff A.one q).mpr (by rwa [I.val_one])) h1
        · exact h
      rw [min_eq_right b, max_eq_right a]

/-- the fraction is monotone in the position -/
theorem fraction_mono (p₁ p₂ : ℕ) (len : Option ℕ) (h : p₁ ≤ p₂) :
    I.val (fraction A p₁ len) ≤ I.val (fraction A p₂ len) := by
  cases len with
  | none => simp [fraction]
  | some l =>
    cases l with
    | zero => simp [fraction]
    | succ k =>
      by_cases h1 : p₁ = 0
      · have : I.val (fraction A p₁ (some (k + 1))) = 0 := by subst h1; simp [fraction, I.val_zero]
        rw [this]; exact (fraction_range I p₂ _).1
      · have h2 : p₂ ≠ 0 := by omega
        have hl1 : 1 ≤ I.rnd ((k + 1 : ℕ) : ℚ) := I.rnd_nat_pos (k + 1) (by omega)
        have hne : I.val (A.ofNat (k + 1)) ≠ 0 := by rw [I.val_ofNat]; linarith
        have e : ∀ p, p ≠ 0 → I.val (fraction A p (some (k + 1)))
            = max 0 (min 1 (I.rnd (I.rnd (p : ℚ) / I.rnd ((k + 1 : ℕ) : ℚ)))) := by
          intro p hp
          have := clamp_val I (A.div (A.ofNat p) (A.ofNat (k + 1)))
          rw [I.val_div _ _ hne, I.val_ofNat, I.val_ofNat] at this
          rw [← this]; simp [fraction, hp]
        rw [e p₁ h1, e p₂ h2]
        apply max_le_max le_rfl
        apply min_le_min le_rfl
        apply I.rnd_mono
        apply div_le_div_of_nonneg_right _ (by linarith)
        exact I.rnd_mono _ _ (by exact_mod_cast h)

/-- **C13, monotone**: the number of filled cells never decreases when the position grows -/
theorem C13_monotone (p₁ p₂ : ℕ) (len : Option ℕ) (h : p₁ ≤ p₂) (w cw n : ℕ) (hc : w / cw ≤ 2 ^ 24) :
    (formatBar A (fraction A p₁ len) w cw n).filled ≤ (formatBar A (fraction A p₂ len) w cw n).filled := by
  unfold formatBar
  dsimp only
  obtain ⟨a0, a1⟩ := fraction_range I p₁ len
  obtain ⟨b0, b1⟩ := fraction_range I p₂ len
  rw [I.trunc_eq _ (fill_range I _ _ hc a0 a1).1, I.trunc_eq _ (fill_range I _ _ hc b0 b1).1]
  apply Nat.floor_le_floor
  rw [I.val_mul, I.val_mul]
  apply I.rnd_mono
  apply mul_le_mul_of_nonneg_right (fraction_mono I p₁ p₂ len h)
  rw [I.val_ofNat, I.rnd_fix _ hc]; positivity

/-- the largest value the fill can take for an incomplete bar, `cells·(1 − 2⁻²⁴)`, rounds to less than `cells` -/
theorem rnd_below_cells (cells : ℕ) (h1 : 1 ≤ cells) (h2 : cells ≤ 2 ^ 24) :
    I.rnd ((cells : ℚ) * (1 - 1 / 2 ^ 24)) < cells := by
  have hc0 : (0 : ℚ) < cells := by exact_mod_cast h1
  have hXlt : (cells : ℚ) * (1 - 1 / 2 ^ 24) < cells := by
    have : (0:ℚ) < 1 / 2 ^ 24 := by positivity
    nlinarith
  by_cases hmax : cells = 2 ^ 24
  · -- X = 2^24 - 1, a natural
    have hX : (cells : ℚ) * (1 - 1 / 2 ^ 24) = ((2 ^ 24 - 1 : ℕ) : ℚ) := by
      subst hmax; norm_num
    rw [hX, I.rnd_fix _ (by norm_num)]
    subst hmax; norm_num
  · have hlt : cells < 2 ^ 24 := lt_of_le_of_ne h2 hmax
    obtain ⟨j, hj1, hj2⟩ := exists_scale 23 cells h1 hlt (by nlinarith [Nat.one_le_two_pow (n := 23)])
    have hP : (0 : ℚ) < 2 ^ j := by positivity
    have hM : ((cells * 2 ^ j : ℕ) : ℚ) = (cells : ℚ) * 2 ^ j := by push_cast; ring
    by_cases hpow : cells * 2 ^ j = 2 ^ 23
    · -- cells is a power of two: X is on the grid
      have hcq : (cells : ℚ) = 2 ^ 23 / 2 ^ j := by
        rw [eq_div_iff (ne_of_gt hP), ← hM, hpow]; norm_num
      have hX : (cells : ℚ) * (1 - 1 / 2 ^ 24) = ((2 ^ 24 - 1 : ℕ) : ℚ) / 2 ^ (j + 1) := by
        rw [hcq]; field_simp; ring
      rw [hX, I.rnd_grid _ _ (by norm_num), ← hX]
      exact hXlt
    · have hgt : 2 ^ 23 < cells * 2 ^ j := lt_of_le_of_ne hj1 (Ne.symm hpow)
      have hnear := I.rnd_nearest ((cells : ℚ) * (1 - 1 / 2 ^ 24)) (cells * 2 ^ j - 1) j (by omega)
      have hcast : ((cells * 2 ^ j - 1 : ℕ) : ℚ) = (cells : ℚ) * 2 ^ j - 1 := by
        rw [Nat.cast_sub (by omega), hM]; norm_num
      rw [hcast] at hnear
      by_contra hge
      rw [not_lt] at hge
      -- distances
      have hMq : (2 : ℚ) ^ 23 < (cells : ℚ) * 2 ^ j := by rw [← hM]; exact_mod_cast hgt
      have hMq2 : (cells : ℚ) * 2 ^ j < 2 ^ 24 := by rw [← hM]; exact_mod_cast hj2
      have hg : ((cells : ℚ) * 2 ^ j - 1) / 2 ^ j = (cells : ℚ) - 1 / 2 ^ j := by field_simp
      rw [hg] at hnear
      have hd1 : (cells : ℚ) - 1 / 2 ^ j - (cells : ℚ) * (1 - 1 / 2 ^ 24) ≤ 0 := by
        have : (cells : ℚ) / 2 ^ 24 ≤ 1 / 2 ^ j := by
          rw [div_le_div_iff₀ (by positivity) hP]; linarith
        have e : (cells : ℚ) - 1 / 2 ^ j - (cells : ℚ) * (1 - 1 / 2 ^ 24) = (cells : ℚ) / 2 ^ 24 - 1 / 2 ^ j := by ring
        rw [e]; linarith
      rw [abs_of_nonpos hd1, abs_of_nonneg (by linarith)] at hnear
      -- rnd X - X ≥ cells/2^24 and |g - X| = 1/2^j - cells/2^24; so 2·cells/2^24 ≤ 1/2^j, i.e. 2·M ≤ 2^24
      have h3 : 2 * ((cells : ℚ) / 2 ^ 24) ≤ 1 / 2 ^ j := by
        have e : (cells : ℚ) * (1 - 1 / 2 ^ 24) = (cells : ℚ) - (cells : ℚ) / 2 ^ 24 := by ring
        rw [e] at hnear hge
        linarith
      have h4 : 2 * ((cells : ℚ) * 2 ^ j) ≤ 2 ^ 24 := by
        have := mul_le_mul_of_nonneg_right h3 (le_of_lt (mul_pos hP (by positivity : (0:ℚ) < 2 ^ 24)))
        field_simp at this
        linarith
      have : (2 : ℚ) ^ 24 = 2 * 2 ^ 23 := by norm_num
      linarith

/-- an incomplete bar (`pos < len ≤ 2²⁴`) has a completed fraction of at most `1 − 2⁻²⁴` -/
theorem fraction_incomplete (pos l : ℕ) (hl : l ≤ 2 ^ 24) (h : pos < l) :
    0 ≤ I.val (fraction A pos (some l)) ∧ I.val (fraction A pos (some l)) ≤ 1 - 1 / 2 ^ 24 := by
  refine ⟨(fraction_range I pos (some l)).1, ?_⟩
  have hb : (0 : ℚ) ≤ 1 - 1 / 2 ^ 24 := by norm_num
  unfold fraction
  cases l with
  | zero => omega
  | succ k =>
    by_cases hp : pos = 0
    · simp only [hp, if_true, I.val_zero]; exact hb
    · simp only [hp, if_false]
      have hk1 : ((k + 1 : ℕ) : ℚ) ≤ 2 ^ 24 := by exact_mod_cast hl
      have hkpos : (0 : ℚ) < ((k + 1 : ℕ) : ℚ) := by positivity
      have hne : I.val (A.ofNat (k + 1)) ≠ 0 := by
        rw [I.val_ofNat, I.rnd_fix _ hl]; exact ne_of_gt hkpos
      have hq : I.val (A.div (A.ofNat pos) (A.ofNat (k + 1))) ≤ 1 - 1 / 2 ^ 24 := by
        rw [I.val_div _ _ hne, I.val_ofNat, I.val_ofNat, I.rnd_fix _ hl, I.rnd_fix _ (by omega)]
        have hle : (pos : ℚ) / ((k + 1 : ℕ) : ℚ) ≤ ((2 ^ 24 - 1 : ℕ) : ℚ) / 2 ^ 24 := by
          rw [div_le_div_iff₀ hkpos (by positivity)]
          have hpk : (pos : ℚ) ≤ ((k + 1 : ℕ) : ℚ) - 1 := by
            have hpk' : pos ≤ k := by omega
            have : (pos : ℚ) ≤ (k : ℚ) := by exact_mod_cast hpk'
            push_cast; linarith
          have : ((2 ^ 24 - 1 : ℕ) : ℚ) = 2 ^ 24 - 1 := by norm_num
          rw [this]
          nlinarith
        have := I.rnd_mono _ _ hle
        rw [I.rnd_grid _ 24 (by norm_num)] at this
        have e : ((2 ^ 24 - 1 : ℕ) : ℚ) / 2 ^ 24 = 1 - 1 / 2 ^ 24 := by norm_num
        rw [e] at this
        exact this
      split
      · rw [I.val_zero]; exact hb
      · split
        · rename_i h1
          rw [I.lt_iff, I.val_one] at h1
          have : (1 : ℚ) - 1 / 2 ^ 24 < 1 := by norm_num
          linarith
        · exact hq

/-- **C13, "only then"**: for lengths up to 2²⁴ the bar is entirely filled *only* when `position ≥ length`:
an incomplete bar always leaves at least one cell unfilled -/
theorem C13_full_only_then (pos l : ℕ) (hl : l ≤ 2 ^ 24) (h : pos < l) (w cw n : ℕ) (hc1 : 1 ≤ w / cw) (hc : w / cw ≤ 2 ^ 24) :
    (formatBar A (fraction A pos (some l)) w cw n).filled < w / cw := by
  obtain ⟨v0, v1⟩ := fraction_incomplete I pos l hl h
  have hfr := fraction_range I pos (some l)
  obtain ⟨g0, _⟩ := fill_range I (fraction A pos (some l)) (w / cw) hc hfr.1 hfr.2
  have hfill : I.val (A.mul (fraction A pos (some l)) (A.ofNat (w / cw))) < ((w / cw : ℕ) : ℚ) := by
    rw [I.val_mul, I.val_ofNat, I.rnd_fix _ hc]
    have hle : I.val (fraction A pos (some l)) * ((w / cw : ℕ) : ℚ) ≤ ((w / cw : ℕ) : ℚ) * (1 - 1 / 2 ^ 24) := by
      have : (0 : ℚ) ≤ ((w / cw : ℕ) : ℚ) := by positivity
      nlinarith
    exact lt_of_le_of_lt (I.rnd_mono _ _ hle) (rnd_below_cells I (w / cw) hc1 hc)
  show A.trunc (A.mul (fraction A pos (some l)) (A.ofNat (w / cw))) < w / cw
  rw [I.trunc_eq _ g0]
  exact (Nat.floor_lt g0).2 hfill


/-- **C13, zero**: position 0 (non-zero length) and unknown length fill nothing: no filled cell, no partial cell -/
theorem C13_zero_filled (pos : ℕ) (len : Option ℕ) (h : (pos = 0 ∧ len ≠ some 0) ∨ len = none) (w cw n : ℕ) :
    formatBar A (fraction A pos len) w cw n = { filled := 0, cur := none, bg := w / cw } := by
  have hf : I.val (fraction A pos len) = 0 := by
    unfold fraction
    rcases h with ⟨hp, hl⟩ | hl
    · cases len with
      | none => exact I.val_zero
      | some l =>
        cases l with
        | zero => exact absurd rfl hl
        | succ k => simp [hp, I.val_zero]
    · subst hl; exact I.val_zero
  have hfill : I.val (A.mul (fraction A pos len) (A.ofNat (w / cw))) = 0 := by
    rw [I.val_mul, hf, zero_mul, I.rnd_zero]
  have htr : A.trunc (A.mul (fraction A pos len) (A.ofNat (w / cw))) = 0 := by
    rw [I.trunc_eq _ (by rw [hfill]), hfill]; simp
  have hlt : A.lt A.zero (A.mul (fraction A pos len) (A.ofNat (w / cw))) = false := by
    rw [Bool.eq_false_iff]; intro hc
    rw [I.lt_iff, I.val_zero, hfill] at hc; exact lt_irrefl _ hc
  unfold formatBar
  simp [htr, hlt]

/-- **C13, full exactly when complete** (lengths up to 2²⁴, at least one cell): all cells are filled iff `position ≥ length` -/
theorem C13_full_iff (pos l : ℕ) (hl : l ≤ 2 ^ 24) (w cw n : ℕ) (hc1 : 1 ≤ w / cw) (hc : w / cw ≤ 2 ^ 24) :
    (formatBar A (fraction A pos (some l)) w cw n).filled = w / cw ↔ l ≤ pos := by
  constructor
  · intro hfull
    by_contra hlt
    have := C13_full_only_then I pos l hl (by omega) w cw n hc1 hc
    omega
  · intro h
    rw [C13_full I pos l h w cw n hc]

/-- **`{wide_bar}` sizes itself to the columns the rest of the line leaves** (`WideElement::Bar::expand`: the bar is
`format_bar(fraction, left)` with `left = terminal width − columns of the rest`): the bar has `⌊left/c⌋` cells of `c` columns,
so the whole line is never wider than the terminal whenever the rest fits, is exactly as wide when `c` divides what is left
(always for one-column progress characters), and otherwise falls short by less than one cell -/
theorem C13_wide_bar_fits (pos : ℕ) (len : Option ℕ) (W rest cw n : ℕ) (hcw : 1 ≤ cw) (hfit : rest ≤ W)
    (hc : (W - rest) / cw ≤ 2 ^ 24) :
    let cells := ((formatBar A (fraction A pos len) (W - rest) cw n).cells n).length
    rest + cw * cells ≤ W ∧ W < rest + cw * cells + cw ∧ (cw ∣ W - rest → rest + cw * cells = W) ∧ (cw = 1 → rest + cw * cells = W) := by
  intro cells
  have hcells : cells = (W - rest) / cw := C13_cells I pos len (W - rest) cw n hc
  have hdm := Nat.div_add_mod (W - rest) cw
  have hlt := Nat.mod_lt (W - rest) (by omega : 0 < cw)
  rw [hcells]
  refine ⟨by omega, by omega, fun hd => ?_, fun h1 => ?_⟩
  · have : (W - rest) % cw = 0 := Nat.mod_eq_zero_of_dvd hd
    omega
  · subst h1; simp; omega

/-- **`{wide_bar}` inside its line** (`Model/Render.lean`, streams C10R / C11R): for every template line `l {wide_bar} r` whose other
parts are ordinary and every bar whose cells are `cw` columns wide, the line handed to the draw target is the text of `l`, the
bar of `format_bar(fraction, W − columns(l) − columns(r))`, the text of `r`; it is never wider than the terminal when the rest
fits, exactly as wide when `cw` divides what is left (always for one-column progress characters) and otherwise short by
less than one cell -/
theorem C13_wide_bar_in_line (env : Render.Env) (pos : ℕ) (len : Option ℕ) (cw n : ℕ) (hcw : 1 ≤ cw)
    (l r : List Template.Part) (al : Template.Align) (t : Bool) (s sa : Option (List Char))
    (hc : env.custom Render.wideBarKey = none)
    (hl : ∀ p ∈ l, Render.PlainPart env p) (hr : ∀ p ∈ r, Render.PlainPart env p)
    (hL : Render.NoNul (l.flatMap (Render.expansion env))) (hR : Render.NoNul (r.flatMap (Render.expansion env)))
    (hLn : Render.NoNl (l.flatMap (Render.expansion env))) (hRn : Render.NoNl (r.flatMap (Render.expansion env)))
    (hb : ∀ m, Render.NoNl (env.bar m))
    (hbar : ∀ m, Pad.cols (env.bar m) = cw * ((formatBar A (fraction A pos len) m cw n).cells n).length)
    (hfit : Pad.cols (l.flatMap (Render.expansion env)) + Pad.cols (r.flatMap (Render.expansion env)) ≤ env.W)
    (hsz : (env.W - (Pad.cols (l.flatMap (Render.expansion env)) + Pad.cols (r.flatMap (Render.expansion env)))) / cw ≤ 2 ^ 24) :
    ∃ line, Render.formatState env (l ++ [.ph Render.wideBarKey al none t s sa] ++ r) = [line] ∧
      Pad.cols line ≤ env.W ∧ env.W < Pad.cols line + cw ∧
      (cw ∣ env.W - (Pad.cols (l.flatMap (Render.expansion env)) + Pad.cols (r.flatMap (Render.expansion env))) → Pad.cols line = env.W) ∧
      (cw = 1 → Pad.cols line = env.W) := by
  refine ⟨_, Render.formatState_wide_bar_line env l r al t s sa hc hl hr hL hR hLn hRn hb, ?_⟩
  have hca : ∀ a b : List Pad.G, Pad.cols (a ++ b) = Pad.cols a + Pad.cols b := by
    intro a b; simp [Pad.cols, List.map_append, List.sum_append]
  have h := C13_wide_bar_fits I pos len env.W (Pad.cols (l.flatMap (Render.expansion env)) + Pad.cols (r.flatMap (Render.expansion env))) cw n hcw hfit hsz
  simp only at h
  rw [hca, hca, hca, hbar]
  obtain ⟨h1, h2, h3, h4⟩ := h
  refine ⟨by omega, by omega, fun hd => by have := h3 hd; omega, fun h1' => by have := h4 h1'; omega⟩

/-- **the geometry of the source is the geometry of these theorems.** `ProgressState::fraction` and the arithmetic of
`ProgressStyle::format_bar`, translated from `src/state.rs` / `src/style.rs` on every run (`tools/rs2lean.py`; `f32` operations
become the operations of the arithmetic), are the model's `fraction` and `formatBar` for every IEEE arithmetic — so
`C13_cells`, `C13_full`, `C13_full_only_then`, `C13_monotone`, `C13_zero_filled` and `C13_wide_bar_fits` speak about what the
source says now — and `format_bar` panics only for a zero `char_width`, which the builder rejects (C14) -/
theorem C13_source_geometry (pos : ℕ) (len : Option ℕ) (f : α) (w cw n : ℕ) :
    Generated.fraction A pos len = fraction A pos len ∧
    (0 < cw → Generated.formatBar A f w cw n =
      some ((formatBar A f w cw n).filled, (formatBar A f w cw n).cur, (formatBar A f w cw n).bg)) ∧
    Generated.formatBar A f w 0 n = none := by
  have h10 : A.lt A.one A.zero = false := by
    rw [Bool.eq_false_iff]; intro hc
    rw [I.lt_iff, I.val_one, I.val_zero] at hc
    exact absurd hc (by norm_num)
  exact ⟨GenBridge.gen_fraction A h10 pos len, fun hcw => GenBridge.gen_formatBar A f w cw n hcw, GenBridge.gen_formatBar_zero_cw A f w n⟩

omit I

/-- exact rational arithmetic is an instance: the hypotheses of `IEEE` are consistent -/
def exact : Arith ℚ where
  ofNat n := n
  mul := (· * ·)
  div := (· / ·)
  fract x := x - ⌊x⌋
  trunc x := ⌊x⌋₊
  lt a b := decide (a < b)
  zero := 0
  one := 1

def exactIEEE : IEEE exact where
  val := id
  rnd := id
  rnd_mono _ _ h := h
  rnd_fix _ _ := rfl
  val_ofNat _ := rfl
  val_mul _ _ := rfl
  val_div _ _ _ := rfl
  lt_iff a b := by simp [exact]
  trunc_eq _ _ := rfl
  val_zero := rfl
  val_one := rfl
  rnd_grid _ _ _ := rfl
  rnd_nearest x m j _ := by simp

end IndicatifModel.BarGeo
