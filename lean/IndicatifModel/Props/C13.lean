import IndicatifModel.Proofs.BarGeoBasic
import Mathlib.Tactic.Linarith
import Mathlib.Tactic.Positivity
import Mathlib.Algebra.Order.Field.Basic
import Mathlib.Algebra.Order.Floor.Semiring
import Mathlib.Data.Rat.Floor

/-!
# C13 — clauses that depend on the rounding behaviour of `f32`

`IEEE A` collects the textbook properties of round-to-nearest arithmetic that the proofs use: every
operation returns the rounding of the exact result, rounding is monotone and leaves the integers up
to 2²⁴ unchanged.  All values reachable from `u64` positions and lengths are finite, so a total
valuation into `ℚ` is adequate.  That the platform's `f32` has these properties is a trusted-base
item; the transcription itself is tied to the crate by the correspondence stream.
-/
namespace IndicatifModel.BarGeo

structure IEEE {α : Type} (A : Arith α) where
  val : α → ℚ
  rnd : ℚ → ℚ
  rnd_mono : ∀ x y, x ≤ y → rnd x ≤ rnd y
  rnd_fix : ∀ n : ℕ, n ≤ 2 ^ 24 → rnd n = n
  val_ofNat : ∀ n : ℕ, val (A.ofNat n) = rnd n
  val_mul : ∀ a b, val (A.mul a b) = rnd (val a * val b)
  val_div : ∀ a b, val b ≠ 0 → val (A.div a b) = rnd (val a / val b)
  lt_iff : ∀ a b, A.lt a b = true ↔ val a < val b
  trunc_eq : ∀ a, 0 ≤ val a → A.trunc a = ⌊val a⌋₊
  val_zero : val A.zero = 0
  val_one : val A.one = 1

variable {α : Type} {A : Arith α} (I : IEEE A)
include I

theorem IEEE.rnd_zero : I.rnd 0 = 0 := by simpa using I.rnd_fix 0 (by positivity)
theorem IEEE.rnd_one : I.rnd 1 = 1 := by simpa using I.rnd_fix 1 (by norm_num)

theorem IEEE.rnd_nat_pos (n : ℕ) (h : 1 ≤ n) : 1 ≤ I.rnd n := by
  have := I.rnd_mono 1 n (by exact_mod_cast h)
  rwa [I.rnd_one] at this

/-- the completed fraction lies in `[0, 1]` -/
theorem fraction_range (pos : ℕ) (len : Option ℕ) :
    0 ≤ I.val (fraction A pos len) ∧ I.val (fraction A pos len) ≤ 1 := by
  unfold fraction
  split
  · simp [I.val_zero]
  · simp [I.val_one]
  · split
    · simp [I.val_zero]
    · dsimp only
      split
      · simp [I.val_zero]
      · split
        · simp [I.val_one]
        · rename_i h0 h1
          rw [Bool.not_eq_true] at h0 h1
          have a : ¬ I.val _ < I.val A.zero := fun h => by
            rw [← I.lt_iff] at h; rw [h] at h0; cases h0
          have b : ¬ I.val A.one < I.val _ := fun h => by
            rw [← I.lt_iff] at h; rw [h] at h1; cases h1
          rw [I.val_zero] at a; rw [I.val_one] at b
          exact ⟨not_lt.mp a, not_lt.mp b⟩

/-- complete (`pos ≥ len > 0`, or `len = 0`) ⇒ the fraction is exactly 1 -/
theorem fraction_complete (pos l : ℕ) (h : l ≤ pos) : I.val (fraction A pos (some l)) = 1 := by
  unfold fraction
  cases l with
  | zero => simp [I.val_one]
  | succ k =>
    have hpos : pos ≠ 0 := by omega
    simp only [hpos, if_false]
    have hl1 : 1 ≤ I.rnd ((k + 1 : ℕ) : ℚ) := I.rnd_nat_pos (k + 1) (by omega)
    have hle : I.rnd ((k + 1 : ℕ) : ℚ) ≤ I.rnd (pos : ℚ) := I.rnd_mono _ _ (by exact_mod_cast h)
    have hne : I.val (A.ofNat (k + 1)) ≠ 0 := by rw [I.val_ofNat]; linarith
    have hq : 1 ≤ I.val (A.div (A.ofNat pos) (A.ofNat (k + 1))) := by
      rw [I.val_div _ _ hne, I.val_ofNat, I.val_ofNat]
      have : (1 : ℚ) ≤ I.rnd (pos : ℚ) / I.rnd ((k + 1 : ℕ) : ℚ) := by
        rw [le_div_iff₀ (by linarith)]; linarith
      have := I.rnd_mono _ _ this
      rwa [I.rnd_one] at this
    split
    · rename_i hlt; rw [I.lt_iff, I.val_zero] at hlt; linarith
    · split
      · exact I.val_one
      · rename_i h1
        rw [Bool.not_eq_true] at h1
        have b : ¬ I.val A.one < I.val (A.div (A.ofNat pos) (A.ofNat (k + 1))) := fun h => by
          rw [← I.lt_iff] at h; rw [h] at h1; cases h1
        rw [I.val_one] at b
        exact le_antisymm (not_lt.mp b) hq

/-- value of the fill for a fraction in `[0,1]` and at most 2²⁴ cells: between 0 and the cell count -/
theorem fill_range (f : α) (cells : ℕ) (hc : cells ≤ 2 ^ 24) (h0 : 0 ≤ I.val f) (h1 : I.val f ≤ 1) :
    0 ≤ I.val (A.mul f (A.ofNat cells)) ∧ I.val (A.mul f (A.ofNat cells)) ≤ cells := by
  rw [I.val_mul, I.val_ofNat, I.rnd_fix cells hc]
  constructor
  · have := I.rnd_mono 0 (I.val f * cells) (by positivity)
    rwa [I.rnd_zero] at this
  · have := I.rnd_mono (I.val f * cells) cells (by nlinarith [(Nat.cast_nonneg cells : (0 : ℚ) ≤ cells)])
    rwa [I.rnd_fix cells hc] at this

/-- **C13, cell count**: `{bar:N}` always occupies exactly `⌊N/c⌋` cells -/
theorem C13_cells (pos : ℕ) (len : Option ℕ) (w cw n : ℕ) (hc : w / cw ≤ 2 ^ 24) :
    ((formatBar A (fraction A pos len) w cw n).cells n).length = w / cw := by
  apply C13_cells_partial
  obtain ⟨h0, h1⟩ := fraction_range I pos len
  obtain ⟨g0, g1⟩ := fill_range I _ (w / cw) hc h0 h1
  rw [I.trunc_eq _ g0]
  exact Nat.floor_le_of_le g1

/-- **C13, full**: whenever `position ≥ length`, every cell is filled and there is no partial cell -/
theorem C13_full (pos l : ℕ) (h : l ≤ pos) (w cw n : ℕ) (hc : w / cw ≤ 2 ^ 24) :
    formatBar A (fraction A pos (some l)) w cw n = { filled := w / cw, cur := none, bg := 0 } := by
  have hf := fraction_complete I pos l h
  have hfill : I.val (A.mul (fraction A pos (some l)) (A.ofNat (w / cw))) = (w / cw : ℕ) := by
    rw [I.val_mul, hf, I.val_ofNat, I.rnd_fix _ hc, one_mul, I.rnd_fix _ hc]
  have htr : A.trunc (A.mul (fraction A pos (some l)) (A.ofNat (w / cw))) = w / cw := by
    rw [I.trunc_eq _ (by rw [hfill]; positivity), hfill, Nat.floor_natCast]
  unfold formatBar
  simp only [htr, Nat.lt_irrefl, decide_false, Bool.and_false, Bool.false_eq_true, if_false,
    Nat.zero_ne_one, Nat.sub_self]

/-- the clamp of `fraction`, in terms of values -/
theorem clamp_val (q : α) :
    I.val (if A.lt q A.zero = true then A.zero else if A.lt A.one q = true then A.one else q)
      = max 0 (min 1 (I.val q)) := by
  split
  · rename_i h; rw [I.lt_iff, I.val_zero] at h
    rw [I.val_zero, max_eq_left]; exact le_trans (min_le_right _ _) h.le
  · rename_i h0
    have a : 0 ≤ I.val q := by
      rcases lt_or_ge (I.val q) 0 with h | h
      · exact absurd ((I.lt_iff q A.zero).mpr (by rwa [I.val_zero])) h0
      · exact h
    split
    · rename_i h; rw [I.lt_iff, I.val_one] at h
      rw [I.val_one, min_eq_left h.le, max_eq_right (by norm_num)]
    · rename_i h1
      have b : I.val q ≤ 1 := by
        rcases lt_or_ge 1 (I.val q) with h | h
        · exact absurd ((I.lt_iff A.one q).mpr (by rwa [I.val_one])) h1
        · exact h
      rw [min_eq_right b, max_eq_right a]

/-- the fraction is monotone in the position -/
theorem fraction_mono (p₁ p₂ : ℕ) (len : Option ℕ) (h : p₁ ≤ p₂) :
    I.val (fraction A p₁ len) ≤ I.val (fraction A p₂ len) := by
  cases len with
  | none => simp [fraction]
  | some l =>
    cases l with
    | zero => simp [fraction]
    | succ k =>
      by_cases h1 : p₁ = 0
      · have : I.val (fraction A p₁ (some (k + 1))) = 0 := by subst h1; simp [fraction, I.val_zero]
        rw [this]; exact (fraction_range I p₂ _).1
      · have h2 : p₂ ≠ 0 := by omega
        have hl1 : 1 ≤ I.rnd ((k + 1 : ℕ) : ℚ) := I.rnd_nat_pos (k + 1) (by omega)
        have hne : I.val (A.ofNat (k + 1)) ≠ 0 := by rw [I.val_ofNat]; linarith
        have e : ∀ p, p ≠ 0 → I.val (fraction A p (some (k + 1)))
            = max 0 (min 1 (I.rnd (I.rnd (p : ℚ) / I.rnd ((k + 1 : ℕ) : ℚ)))) := by
          intro p hp
          have := clamp_val I (A.div (A.ofNat p) (A.ofNat (k + 1)))
          rw [I.val_div _ _ hne, I.val_ofNat, I.val_ofNat] at this
          rw [← this]; simp [fraction, hp]
        rw [e p₁ h1, e p₂ h2]
        apply max_le_max le_rfl
        apply min_le_min le_rfl
        apply I.rnd_mono
        apply div_le_div_of_nonneg_right _ (by linarith)
        exact I.rnd_mono _ _ (by exact_mod_cast h)

/-- **C13, monotone**: the number of filled cells never decreases when the position grows -/
theorem C13_monotone (p₁ p₂ : ℕ) (len : Option ℕ) (h : p₁ ≤ p₂) (w cw n : ℕ) (hc : w / cw ≤ 2 ^ 24) :
    (formatBar A (fraction A p₁ len) w cw n).filled ≤ (formatBar A (fraction A p₂ len) w cw n).filled := by
  unfold formatBar
  dsimp only
  obtain ⟨a0, a1⟩ := fraction_range I p₁ len
  obtain ⟨b0, b1⟩ := fraction_range I p₂ len
  rw [I.trunc_eq _ (fill_range I _ _ hc a0 a1).1, I.trunc_eq _ (fill_range I _ _ hc b0 b1).1]
  apply Nat.floor_le_floor
  rw [I.val_mul, I.val_mul]
  apply I.rnd_mono
  apply mul_le_mul_of_nonneg_right (fraction_mono I p₁ p₂ len h)
  rw [I.val_ofNat, I.rnd_fix _ hc]; positivity

omit I

/-- exact rational arithmetic is an instance: the hypotheses of `IEEE` are consistent -/
def exact : Arith ℚ where
  ofNat n := n
  mul := (· * ·)
  div := (· / ·)
  fract x := x - ⌊x⌋
  trunc x := ⌊x⌋₊
  lt a b := decide (a < b)
  zero := 0
  one := 1

def exactIEEE : IEEE exact where
  val := id
  rnd := id
  rnd_mono _ _ h := h
  rnd_fix _ _ := rfl
  val_ofNat _ := rfl
  val_mul _ _ := rfl
  val_div _ _ _ := rfl
  lt_iff a b := by simp [exact]
  trunc_eq _ _ := rfl
  val_zero := rfl
  val_one := rfl

end IndicatifModel.BarGeo
