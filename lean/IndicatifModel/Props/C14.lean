import IndicatifModel.Model.StyleBuilder
import IndicatifModel.Proofs.GenBridgeFmt
import IndicatifModel.Proofs.GenBridgeGeo
import IndicatifModel.Proofs.BarGeoBasic
/-!
# C14 — Every style the builder accepts can be rendered without panicking
-/
namespace IndicatifModel.StyleBuilder

def Good (s : Style) : Prop := s.tickN ≥ 2 ∧ s.progWidths.length ≥ 2 ∧ s.charWidth ≥ 1

theorem default_good : Good {} := ⟨by decide, by decide, by decide⟩

/-- with both repairs every accepted builder call keeps the style renderable -/
theorem build_good (s s' : Style) (op : BuildOp) (h : Good s) (hb : build SFix.current s op = some s') : Good s' := by
  obtain ⟨h1, h2, h3⟩ := h
  cases op with
  | tickChars n =>
    simp only [build] at hb
    split at hb
    · cases hb; exact ⟨by assumption, h2, h3⟩
    · cases hb
  | tickStrings n =>
    simp only [build, SFix.current, if_true] at hb
    split at hb
    · cases hb; exact ⟨by assumption, h2, h3⟩
    · cases hb
  | progressChars ws =>
    simp only [build, SFix.current] at hb
    split at hb
    · cases hb
    · rename_i hlen
      cases ws with
      | nil => cases hb
      | cons w rest =>
        simp only [] at hb
        split at hb
        · by_cases hz : w = 0
          · simp [hz] at hb
          · have hz' : (w == 0) = false := by simp [hz]
            simp only [hz', Bool.and_false, Bool.false_eq_true, if_false] at hb
            cases hb
            refine ⟨h1, ?_, ?_⟩
            · show (w :: rest).length ≥ 2
              omega
            · show w ≥ 1
              omega
        · cases hb

/-- **C14.** Any style accepted by the builder as it is in the repository now renders for every tick count, bar width and
finished flag without panicking. -/
theorem C14_render_total (ops : List BuildOp) : ∀ (s s' : Style), Good s →
    buildAll SFix.current s ops = some s' →
    ∀ tick barWidth finished, renderOk s' tick barWidth finished = true := by
  induction ops with
  | nil =>
    intro s s' hg hb tick bw fin
    simp only [buildAll] at hb; cases hb
    obtain ⟨h1, h2, h3⟩ := hg
    simp only [renderOk]
    cases fin <;> simp <;> omega
  | cons op ops ih =>
    intro s s' hg hb
    simp only [buildAll] at hb
    split at hb
    · rename_i s1 h1
      exact ih s1 s' (build_good s s1 op hg h1) hb
    · cases hb

/-- **C14 (early rejection).** Fewer than two tick strings or progress characters, progress characters of
unequal width and zero-width progress characters are rejected when the style is built. -/
theorem C14_rejects_early (s : Style) :
    (∀ n, n < 2 → build SFix.current s (.tickChars n) = none) ∧
    (∀ n, n < 2 → build SFix.current s (.tickStrings n) = none) ∧
    (∀ ws, ws.length < 2 → build SFix.current s (.progressChars ws) = none) ∧
    (∀ w w' pre rest, w ≠ w' → build SFix.current s (.progressChars (w :: pre ++ w' :: rest)) = none) ∧
    (∀ rest, build SFix.current s (.progressChars (0 :: rest)) = none) := by
  refine ⟨?_, ?_, ?_, ?_, ?_⟩
  · intro n hn; simp only [build]; split <;> first | omega | rfl
  · intro n hn; simp only [build, SFix.current, if_true]; split <;> first | omega | rfl
  · intro ws hw; simp only [build, hw, if_true]
  · intro w w' pre rest hne
    simp only [build]
    split
    · rfl
    · have : (pre ++ w' :: rest).all (· == w) = false := by
        simp only [List.all_eq_false]
        exact ⟨w', by simp, by simp [Ne.symm hne]⟩
      simp [this]
  · intro rest
    simp only [build, SFix.current]
    split
    · rfl
    · split <;> simp

/-- **The pinned builder accepts styles that panic in a draw** (candidates F12, F13). -/
theorem C14_fails_unrepaired :
    (∃ s, buildAll {} {} [.tickStrings 1] = some s ∧ renderOk s 3 20 false = false) ∧
    (∃ s, buildAll {} {} [.progressChars [0, 0, 0]] = some s ∧ renderOk s 0 20 false = false) := by
  constructor
  · exact ⟨_, rfl, by decide⟩
  · exact ⟨_, rfl, by decide⟩

/-- **the source as translated**: the default style the builder chains start from has as many tick strings and progress
characters as `ProgressStyle::new` sets (regenerated on every run), so `default_good` speaks about the source's defaults -/
theorem C14_source_defaults :
    ({} : Style).tickN = Generated.defaultTickChars.length ∧ ({} : Style).progWidths.length = Generated.defaultProgressChars.length ∧
    2 ≤ Generated.defaultTickChars.length ∧ 2 ≤ Generated.defaultProgressChars.length :=
  ⟨GenBridge.defaults_eq.2.2.1, GenBridge.defaults_eq.2.2.2, by decide, by decide⟩

/-- **the source as translated: what the builders assert is what the renderer needs.** The assertions of `tick_chars`,
`tick_strings` and `progress_chars`, the index computations of `get_tick_str` / `get_final_tick_str` and the arithmetic of
`format_bar` are translated from `src/style.rs` on every run (`none` = panic). For every number of tick strings and progress
characters and every common width that the builders accept: the tick index exists for every tick count, the final tick index
exists, `format_bar` does not panic for any fraction and width over any arithmetic, and the partial cell it selects is one of the
configured characters. And the model's builder (`build SFix.current`) accepts exactly what the translated assertions accept. -/
theorem C14_source_accepted_styles_render (nticks nchars cw : Nat)
    (ht : Generated.tickCharsAccepts nticks ∨ Generated.tickStringsAccepts nticks) (hp : Generated.progressCharsAccepts nchars cw) :
    (∀ idx, (Generated.tickIndex nticks idx).isSome = true ∧ ∀ i, Generated.tickIndex nticks idx = some i → i < nticks) ∧
    ((Generated.finalTickIndex nticks).isSome = true) ∧
    (∀ {α : Type} (A : BarGeo.Arith α) (fract : α) (width : Nat),
      (Generated.formatBar A fract width cw nchars).isSome = true ∧
      ∀ f c b, Generated.formatBar A fract width cw nchars = some (f, some c, b) → c < nchars) := by
  have hn : 2 ≤ nticks := by rcases ht with h | h <;> exact h
  obtain ⟨hc2, hcw⟩ := hp
  refine ⟨fun idx => ?_, ?_, fun A fract width => ?_⟩
  · have hlt : idx % (nticks - 1) < nticks := by
      have := Nat.mod_lt idx (show 0 < nticks - 1 by omega); omega
    have hg : 1 ≤ nticks ∧ 0 < nticks - 1 ∧ idx % (nticks - 1) < nticks := ⟨by omega, by omega, hlt⟩
    simp only [Generated.tickIndex, hg, and_self, if_true, Option.isSome_some, true_and]
    intro i hi; injection hi with hi; omega
  · have hg : 1 ≤ nticks ∧ nticks - 1 < nticks := ⟨by omega, by omega⟩
    simp only [Generated.finalTickIndex, hg, and_self, if_true, Option.isSome_some]
  · rw [GenBridge.gen_formatBar A fract width cw nchars hcw]
    refine ⟨rfl, fun f c b h => ?_⟩
    simp only [Option.some.injEq, Prod.mk.injEq] at h
    have := BarGeo.C13_cur_in_range A fract width cw nchars c hc2 h.2.1
    omega

theorem C14_source_builder_accepts (s : Style) (n : Nat) (ws : List Nat) (w : Nat) (hws : ∀ x ∈ ws, x = w) (hne : ws ≠ []) :
    ((build SFix.current s (.tickChars n)).isSome = true ↔ Generated.tickCharsAccepts n) ∧
    ((build SFix.current s (.tickStrings n)).isSome = true ↔ Generated.tickStringsAccepts n) ∧
    ((build SFix.current s (.progressChars ws)).isSome = true ↔ Generated.progressCharsAccepts ws.length w) := by
  refine ⟨?_, ?_, ?_⟩
  · simp only [build, Generated.tickCharsAccepts]; split <;> simp_all
  · simp only [build, SFix.current, if_true, Generated.tickStringsAccepts]; split <;> simp_all
  · cases ws with
    | nil => exact absurd rfl hne
    | cons x rest =>
      have hx : x = w := hws x (by simp)
      have hall : rest.all (· == x) = true := by
        rw [List.all_eq_true]; intro y hy; simp [hws y (by simp [hy]), hx]
      simp only [build, SFix.current, Generated.progressCharsAccepts, List.length_cons, hall, if_true, Bool.true_and]
      subst hx
      by_cases h2 : rest.length + 1 < 2
      · simp [h2]; omega
      · by_cases h0 : x = 0
        · simp [h2, h0]
        · simp [h2, h0]; omega

end IndicatifModel.StyleBuilder
