import IndicatifModel.Model.Format
/-!
# C15 — Human-readable formatters (integer parts)
-/
namespace IndicatifModel.Format

/-- `FormattedDuration`: the fields printed are the mixed-radix digits of the whole seconds -/
theorem C15_formatted_duration_fields (secs : Nat) :
    let s := secs % 60; let m := secs / 60 % 60; let h := secs / 60 / 60 % 24; let d := secs / 60 / 60 / 24
    s < 60 ∧ m < 60 ∧ h < 24 ∧ d * 86400 + h * 3600 + m * 60 + s = secs := by
  intro s m h d
  refine ⟨by omega, by omega, by omega, by omega⟩

/-- `HumanDuration` never prints "1 unit" above seconds -/
theorem C15_never_one_unit (d : Nat) : (humanDurationCount d).1 < units.length - 1 → 2 ≤ (humanDurationCount d).2 := by
  intro h
  simp only [humanDurationCount] at h ⊢
  simp only [h, if_true]
  exact Nat.le_max_right _ _

/-- the count is the duration divided by the unit, rounded to the nearest (half up) -/
theorem C15_round_nearest (d unit : Nat) (hu : 0 < unit) :
    2 * unit * roundDiv d unit ≤ 2 * d + unit ∧ 2 * d + unit < 2 * unit * (roundDiv d unit + 1) := by
  unfold roundDiv
  have h1 := Nat.div_add_mod (2 * d + unit) (2 * unit)
  have h2 := Nat.mod_lt (2 * d + unit) (show 0 < 2 * unit by omega)
  constructor
  · omega
  · rw [Nat.mul_add]; omega

/-- non-vacuity / the documented switch points -/
example : humanDurationCount (89 * NS + 499999999) = (5, 89) ∧ humanDurationCount (89 * NS + 500000000) = (4, 2) ∧
    humanDurationCount YEAR = (1, 52) := by
  refine ⟨by decide +kernel, by decide +kernel, by decide +kernel⟩

end IndicatifModel.Format
