import Mathlib.Tactic.Ring
import Mathlib.Tactic.Linarith
import Mathlib.Tactic.FieldSimp
import Mathlib.Algebra.Order.Field.Basic
import IndicatifModel.Model.Format
import IndicatifModel.Proofs.GenBridgeFmt
import IndicatifModel.Proofs.GenBridgeDur
/-!
# C15 — Human-readable formatters (integer parts)
-/
namespace IndicatifModel.Format

/-- `FormattedDuration`: the fields printed are the mixed-radix digits of the whole seconds -/
theorem C15_formatted_duration_fields (secs : Nat) :
    let s := secs % 60; let m := secs / 60 % 60; let h := secs / 60 / 60 % 24; let d := secs / 60 / 60 / 24
    s < 60 ∧ m < 60 ∧ h < 24 ∧ d * 86400 + h * 3600 + m * 60 + s = secs := by
  intro s m h d
  refine ⟨by omega, by omega, by omega, by omega⟩

/-- `HumanDuration` never prints "1 unit" above seconds -/
theorem C15_never_one_unit (d : Nat) : (humanDurationCount d).1 < units.length - 1 → 2 ≤ (humanDurationCount d).2 := by
  intro h
  simp only [humanDurationCount] at h ⊢
  simp only [h, if_true]
  exact Nat.le_max_right _ _

/-- **the unit-switching rule, in nanoseconds**: `HumanDuration` uses the largest unit `u` with `d ≥ 1.5·u − next/2`
(`next` = the next smaller unit): years from 1.5 y − 3.5 d, weeks from 1.5 w − 12 h, days from 1.5 d − 30 min,
hours from 1.5 h − 30 s, minutes from 89.5 s, seconds below -/
theorem C15_unit_switch_rule (d : Nat) :
    (unitIndex d = 0 ∧ 47304000000000000 ≤ d + 302400000000000) ∨
    (unitIndex d = 1 ∧ d + 302400000000000 < 47304000000000000 ∧ 907200000000000 ≤ d + 43200000000000) ∨
    (unitIndex d = 2 ∧ d + 43200000000000 < 907200000000000 ∧ 129600000000000 ≤ d + 1800000000000) ∨
    (unitIndex d = 3 ∧ d + 1800000000000 < 129600000000000 ∧ 5400000000000 ≤ d + 30000000000) ∨
    (unitIndex d = 4 ∧ d + 30000000000 < 5400000000000 ∧ 90000000000 ≤ d + 500000000) ∨
    (unitIndex d = 5 ∧ d + 500000000 < 90000000000) := by
  unfold unitIndex unitIndex.go units YEAR WEEK DAY HOUR MINUTE SECOND NS
  simp only [unitIndex.go]
  repeat' split
  all_goals omega

theorem value_of_index (d : Nat) :
    humanDurationValue d =
      (if unitIndex d < 5 then max (roundDiv d (units.getD (unitIndex d) (SECOND, "", "")).1) 2 else roundDiv d (units.getD (unitIndex d) (SECOND, "", "")).1)
        * (units.getD (unitIndex d) (SECOND, "", "")).1 := by
  unfold humanDurationValue humanDurationCount
  simp only [units, List.length_cons, List.length_nil]
  rfl

/-- **`HumanDuration` is monotone in the duration**: a longer duration never renders as a shorter time -/
theorem C15_human_duration_monotone (d1 d2 : Nat) (h : d1 ≤ d2) : humanDurationValue d1 ≤ humanDurationValue d2 := by
  rw [value_of_index, value_of_index]
  rcases C15_unit_switch_rule d1 with ⟨e1, a1⟩ | ⟨e1, a1⟩ | ⟨e1, a1⟩ | ⟨e1, a1⟩ | ⟨e1, a1⟩ | ⟨e1, a1⟩ <;>
  rcases C15_unit_switch_rule d2 with ⟨e2, a2⟩ | ⟨e2, a2⟩ | ⟨e2, a2⟩ | ⟨e2, a2⟩ | ⟨e2, a2⟩ | ⟨e2, a2⟩ <;>
  rw [e1, e2] <;>
  simp only [units, YEAR, WEEK, DAY, HOUR, MINUTE, SECOND, NS, roundDiv, List.getD_cons_zero, List.getD_cons_succ,
    Nat.reduceLT, reduceIte, Nat.reduceMul, Nat.lt_irrefl] <;>
  omega


/-- the count is the duration divided by the unit, rounded to the nearest (half up) -/
theorem C15_round_nearest (d unit : Nat) (hu : 0 < unit) :
    2 * unit * roundDiv d unit ≤ 2 * d + unit ∧ 2 * d + unit < 2 * unit * (roundDiv d unit + 1) := by
  unfold roundDiv
  have h1 := Nat.div_add_mod (2 * d + unit) (2 * unit)
  have h2 := Nat.mod_lt (2 * d + unit) (show 0 < 2 * unit by omega)
  constructor
  · omega
  · rw [Nat.mul_add]; omega


/-! ### Decimal digits and digit grouping (`HumanCount`, integer part of `HumanFloatCount`) -/

def digitVal (c : Char) : Nat := c.toNat - 48
/-- the number a digit string stands for -/
def toNat (ds : List Char) : Nat := ds.foldl (fun n c => n * 10 + digitVal c) 0

theorem toNat_append_single (ds : List Char) (c : Char) : toNat (ds ++ [c]) = toNat ds * 10 + digitVal c := by
  simp [toNat, List.foldl_append]

theorem digitVal_digitChar (d : Nat) (h : d < 10) : digitVal (digitChar d) = d := by
  have : d = 0 ∨ d = 1 ∨ d = 2 ∨ d = 3 ∨ d = 4 ∨ d = 5 ∨ d = 6 ∨ d = 7 ∨ d = 8 ∨ d = 9 := by omega
  rcases this with h|h|h|h|h|h|h|h|h|h <;> subst h <;> decide

/-- **`digits n` is the standard decimal representation of `n`**: it denotes `n` … -/
theorem C15_digits_value (n : Nat) : toNat (digits n) = n := by
  induction n using Nat.strongRecOn with
  | _ n ih =>
    rw [digits]
    split
    · rename_i h; simp [toNat, digitVal_digitChar n h]
    · rename_i h
      rw [toNat_append_single, ih (n / 10) (by omega), digitVal_digitChar _ (Nat.mod_lt _ (by decide))]
      omega

theorem digits_ne_nil (n : Nat) : digits n ≠ [] := by
  rw [digits]; split <;> simp

theorem digitChar_ne_comma (d : Nat) (h : d < 10) : digitChar d ≠ ',' := by
  have : d = 0 ∨ d = 1 ∨ d = 2 ∨ d = 3 ∨ d = 4 ∨ d = 5 ∨ d = 6 ∨ d = 7 ∨ d = 8 ∨ d = 9 := by omega
  rcases this with h|h|h|h|h|h|h|h|h|h <;> subst h <;> decide

theorem digits_no_comma (n : Nat) : ∀ c ∈ digits n, c ≠ ',' := by
  induction n using Nat.strongRecOn with
  | _ n ih =>
    rw [digits]
    split
    · rename_i h; intro c hc; simp at hc; subst hc; exact digitChar_ne_comma n h
    · rename_i h
      intro c hc
      simp only [List.mem_append, List.mem_singleton] at hc
      rcases hc with hc | rfl
      · exact ih (n / 10) (by omega) c hc
      · exact digitChar_ne_comma _ (Nat.mod_lt _ (by decide))

/-- … and has no leading zero (except for `0` itself) -/
theorem C15_digits_no_leading_zero (n : Nat) (hn : 0 < n) : (digits n).head? ≠ some '0' := by
  induction n using Nat.strongRecOn with
  | _ n ih =>
    rw [digits]
    split
    · rename_i h
      have : n = 1 ∨ n = 2 ∨ n = 3 ∨ n = 4 ∨ n = 5 ∨ n = 6 ∨ n = 7 ∨ n = 8 ∨ n = 9 := by omega
      rcases this with h|h|h|h|h|h|h|h|h <;> subst h <;> decide
    · rename_i h
      have hne := digits_ne_nil (n / 10)
      rw [List.head?_append_of_ne_nil _ hne]
      exact ih (n / 10) (by omega) (by omega)

theorem range_map_getD (ds : List Char) (d : Char) : (List.range ds.length).map (fun i => ds.getD i d) = ds := by
  apply List.ext_getElem
  · simp
  · intro i h1 h2
    simp only [List.length_map, List.length_range] at h1
    simp [List.getD_eq_getElem?_getD, List.getElem?_eq_getElem h1]

/-- **Grouping only inserts commas**: erasing them gives the digits back, in order -/
theorem C15_group3_digits (ds : List Char) (h : ∀ c ∈ ds, c ≠ ',') : (group3 ds).filter (· ≠ ',') = ds := by
  have hget : ∀ i, ds.getD i '0' ≠ ',' := by
    intro i
    by_cases hi : i < ds.length
    · rw [List.getD_eq_getElem?_getD, List.getElem?_eq_getElem hi]; exact h _ (List.getElem_mem hi)
    · rw [List.getD_eq_getElem?_getD, List.getElem?_eq_none (by omega)]; decide
  have hpiece : ∀ (c : Char) (b : Bool), c ≠ ',' → List.filter (fun x => decide (x ≠ ',')) ([c] ++ if b = true then [','] else []) = [c] := by
    intro c b hc
    cases b <;> simp [hc]
  simp only [group3, List.filter_flatMap]
  have hfun : (fun idx => List.filter (fun x => decide (x ≠ ',')) ([ds.getD idx '0'] ++
      if (decide (ds.length - idx - 1 > 0) && (ds.length - idx - 1) % 3 == 0) = true then [','] else [])) = (fun idx => [ds.getD idx '0']) := by
    funext idx
    exact hpiece _ _ (hget idx)
  rw [hfun]
  conv => rhs; rw [← range_map_getD ds '0']
  generalize List.range ds.length = l
  induction l with
  | nil => rfl
  | cons a l ih => simp only [List.flatMap_cons, List.map_cons, List.singleton_append, ih]

/-- **`HumanCount`**: the digits of `n` (standard decimal, see above) with commas in between, nothing else;
a comma follows a digit exactly when the number of digits after it is a positive multiple of three
(this is the definition of `group3`, which `humanCount` is). -/
theorem C15_count (n : Nat) : humanCount n = group3 (digits n) ∧ (humanCount n).filter (· ≠ ',') = digits n :=
  ⟨rfl, C15_group3_digits _ (digits_no_comma n)⟩

/-! ### Fixed-precision rounding (`HumanFloatCount`) -/

/-- `roundHalfEven num den` is a nearest integer to `num / den`, and the even one on a tie -/
theorem C15_round_half_even (num den : Nat) (hd : 0 < den) :
    let q := roundHalfEven num den
    2 * (q * den) ≤ 2 * num + den ∧ 2 * num ≤ 2 * (q * den) + den ∧ (2 * num + den = 2 * (q * den) ∨ 2 * num = 2 * (q * den) + den → q % 2 = 0) := by
  intro q
  have hdm := Nat.div_add_mod num den
  have hlt := Nat.mod_lt num hd
  have hmul : (num / den + 1) * den = num / den * den + den := by rw [Nat.add_mul, Nat.one_mul]
  have hcomm : den * (num / den) = num / den * den := Nat.mul_comm _ _
  simp only [q, roundHalfEven]
  split
  · rename_i hc
    rw [hmul]
    refine ⟨by omega, by omega, ?_⟩
    intro hh
    rcases hc with hc | ⟨hc1, hc2⟩
    · omega
    · omega
  · rename_i hc
    refine ⟨by omega, ?_, ?_⟩
    · by_cases h2 : 2 * (num % den) > den
      · exact absurd (Or.inl h2) hc
      · omega
    · intro hh
      by_cases h2 : 2 * (num % den) = den
      · by_cases h3 : num / den % 2 = 1
        · exact absurd (Or.inr ⟨h2, h3⟩) hc
        · omega
      · omega

theorem toNat_zeros (k : Nat) (ds : List Char) : toNat (List.replicate k '0' ++ ds) = toNat ds := by
  induction k with
  | zero => rfl
  | succ k ih =>
    have : toNat (List.replicate (k + 1) '0' ++ ds) = toNat (List.replicate k '0' ++ ds) := by
      simp only [toNat, List.replicate_succ, List.cons_append, List.foldl_cons]
      have h0 : (0 * 10 + digitVal '0') = 0 := by decide
      rw [h0]
    rw [this, ih]

/-- **`HumanFloatCount`, finite values**: the integer and fraction digits are those of the value scaled by
`10^prec` and rounded half to even (`scaledRound`, exact integer arithmetic), the fraction has exactly
`prec` digits before trimming; the output is sign, grouped integer digits, and the fraction with its
trailing zeros trimmed (omitted with its point when nothing is left). -/
theorem C15_float_count (bits prec : Nat) (neg : Bool) (mant : Nat) (exp : Int) (h : decodeF64 bits = .fin neg mant exp) :
    let ip := (fixedParts mant exp prec).1
    let fp := (fixedParts mant exp prec).2
    toNat (ip ++ fp) = scaledRound mant exp prec ∧ fp.length = prec ∧ ip ≠ [] ∧
    humanFloatCount bits prec = (if neg then ['-'] else []) ++ group3 ip ++ (if trimZeros fp = [] then [] else '.' :: trimZeros fp) := by
  intro ip fp
  have hlen : prec + 1 ≤ (padLeftZeros (prec + 1) (digits (scaledRound mant exp prec))).length := by
    simp only [padLeftZeros, List.length_append, List.length_replicate]; omega
  refine ⟨?_, ?_, ?_, ?_⟩
  · simp only [ip, fp, fixedParts, List.take_append_drop, padLeftZeros]
    rw [toNat_zeros, C15_digits_value]
  · simp only [fp, fixedParts, List.length_drop]; omega
  · simp only [ip, fixedParts]
    intro h0
    have := congrArg List.length h0
    simp only [List.length_take, List.length_nil] at this
    omega
  · simp only [humanFloatCount, h, ip, fp]

/-- NaN and the infinities pass through unchanged (no digit grouping is applied to them) -/
theorem C15_float_count_nonfinite (bits prec : Nat) :
    (decodeF64 bits = .nan → humanFloatCount bits prec = "NaN".toList) ∧
    (∀ neg, decodeF64 bits = .inf neg → humanFloatCount bits prec = (if neg then ['-'] else []) ++ "inf".toList) := by
  constructor
  · intro h; simp only [humanFloatCount, h]
  · intro neg h; simp only [humanFloatCount, h]

/-! ### Largest fitting prefix (`HumanBytes`, `BinaryBytes`, `DecimalBytes`) -/
section pfx
variable {α : Type} [Field α] [LinearOrder α] [IsStrictOrderedRing α]

theorem prefixLoop_spec (kilo : α) (hk : 1 < kilo) : ∀ (fuel : Nat) (a : α) (p : Nat), 0 ≤ a →
    let r := prefixLoopG (fun x y => decide (y ≤ x)) (· / ·) kilo fuel a p
    r.1 * kilo ^ (r.2 - p) = a ∧ p ≤ r.2 ∧ r.2 ≤ p + fuel ∧ 0 ≤ r.1 ∧
    (r.2 < 8 → r.2 < p + fuel → r.1 < kilo) ∧ (p < r.2 → 1 ≤ r.1) := by
  intro fuel
  induction fuel with
  | zero => intro a p ha; simp [prefixLoopG, ha]
  | succ fuel ih =>
    intro a p ha
    simp only [prefixLoopG]
    by_cases hc : (decide (kilo ≤ a) && decide (p < 8)) = true
    · simp only [hc, if_true]
      have hka : kilo ≤ a := by simp only [Bool.and_eq_true, decide_eq_true_eq] at hc; exact hc.1
      have hkpos : 0 < kilo := by linarith
      have hdiv : 0 ≤ a / kilo := div_nonneg ha (le_of_lt hkpos)
      obtain ⟨h1, h2, h3, h4, h5, h6⟩ := ih (a / kilo) (p + 1) hdiv
      refine ⟨?_, by omega, by omega, h4, ?_, ?_⟩
      · have hsub : (prefixLoopG (fun x y => decide (y ≤ x)) (· / ·) kilo fuel (a / kilo) (p + 1)).2 - p =
            ((prefixLoopG (fun x y => decide (y ≤ x)) (· / ·) kilo fuel (a / kilo) (p + 1)).2 - (p + 1)) + 1 := by omega
        rw [hsub, pow_succ, ← mul_assoc, h1]
        field_simp
      · intro hlt8 hlt
        exact h5 hlt8 (by omega)
      · intro _
        by_cases hp : p + 1 < (prefixLoopG (fun x y => decide (y ≤ x)) (· / ·) kilo fuel (a / kilo) (p + 1)).2
        · exact h6 hp
        · -- no further division: the result is a / kilo ≥ 1
          have heq : (prefixLoopG (fun x y => decide (y ≤ x)) (· / ·) kilo fuel (a / kilo) (p + 1)).2 = p + 1 := by omega
          rw [heq] at h1
          simp only [Nat.sub_self, pow_zero, mul_one] at h1
          rw [h1, le_div_iff₀ hkpos]
          linarith
    · have hc' : (decide (kilo ≤ a) && decide (p < 8)) = false := by simpa using hc
      simp only [hc', Bool.false_eq_true, if_false, Nat.sub_self, pow_zero, mul_one, Nat.le_refl, Nat.lt_irrefl, false_imp_iff, and_true, true_and]
      refine ⟨by omega, ha, ?_⟩
      intro h8 _
      simp only [Bool.and_eq_false_iff, decide_eq_false_iff_not, not_le] at hc'
      rcases hc' with h | h
      · exact h
      · omega

/-- **Largest fitting prefix.** For a non-negative amount `x` and `kilo > 1` (1000 or 1024), the loop of
`number_prefix` returns a value `a` and a prefix index `p ≤ 8` with `a · kilo^p = x`; `p` is the largest
that fits: `a ≥ 1` whenever a prefix is used, and `a < kilo` unless the last prefix (`Y`/`Yi`) is reached. -/
theorem C15_bytes_prefix (kilo x : α) (hk : 1 < kilo) (hx : 0 ≤ x) :
    let r := prefixLoopG (fun a b => decide (b ≤ a)) (· / ·) kilo 8 x 0
    r.1 * kilo ^ r.2 = x ∧ r.2 ≤ 8 ∧ (r.2 < 8 → r.1 < kilo) ∧ (0 < r.2 → 1 ≤ r.1) := by
  intro r
  obtain ⟨h1, _, h3, _, h5, h6⟩ := prefixLoop_spec kilo hk 8 x 0 hx
  refine ⟨by simpa using h1, by omega, fun h => h5 h (by omega), h6⟩

end pfx

/-- non-vacuity / the documented switch points -/
example : humanDurationCount (89 * NS + 499999999) = (5, 89) ∧ humanDurationCount (89 * NS + 500000000) = (4, 2) ∧
    humanDurationCount YEAR = (1, 52) := by
  refine ⟨by decide +kernel, by decide +kernel, by decide +kernel⟩

/-- **the source as translated** (`tools/rs2lean.py`, regenerated on every run): `<FormattedDuration as Display>::fmt`
writes exactly the model's text for every number of whole seconds (`{x}` / `{x:02}` read as decimal digits, zero-padded),
and the model's `UNITS` table is the source's: same units, names, short names and order -/
theorem C15_source_formatted_duration_and_units :
    (∀ secs, GenBridge.renderPieces (Generated.formattedDuration secs) = formattedDuration secs) ∧
    units = Generated.units.map (fun r => (r.1 * NS, r.2.1, r.2.2)) :=
  ⟨GenBridge.formattedDuration_eq, GenBridge.units_eq⟩

/-- non-vacuity: 100 days and one second, written by the translated function -/
example : GenBridge.renderPieces (Generated.formattedDuration 8640001) = "100d 00:00:01".toList := by decide +kernel

/-- **`<HumanDuration as Display>::fmt` as read from the source** (`tools/gen_duration.py`, regenerated on every run: the start
index, the look-ahead, the two divisors and the comparison of the unit loop, what its two arms do, the rounding, the clamp and the
units it applies to, the arms of `match (f.alternate(), t)` with their format strings): the program these make up writes exactly
the model's text — the one `C15_never_one_unit`, `C15_unit_switch_rule`, `C15_human_duration_monotone` and `C15_round_nearest`
are about — for every duration and both forms. (Modelled, not read: `as_secs_f64`/`round` as exact rounding of the quotient of
nanoseconds, `saturating_add` as addition; the stream compares both with the crate.) -/
theorem C15_source_human_duration (d : Nat) (alternate : Bool) :
    hdRun Generated.humanDurProg Generated.humanDurArms units d alternate = humanDuration d alternate :=
  GenBridge.humanDuration_eq d alternate

/-- non-vacuity: the program read from the source, run on 89.5 s and on 1 s -/
example : hdRun Generated.humanDurProg Generated.humanDurArms units (89 * NS + 500000000) false = "2 minutes".toList ∧
    hdRun Generated.humanDurProg Generated.humanDurArms units NS false = "1 second".toList ∧
    hdRun Generated.humanDurProg Generated.humanDurArms units NS true = "1s".toList := by
  refine ⟨by decide +kernel, by decide +kernel, by decide +kernel⟩

end IndicatifModel.Format
