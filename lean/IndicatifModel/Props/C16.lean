import IndicatifModel.Model.Tab
import IndicatifModel.Proofs.GenBridgeFmt
import IndicatifModel.Proofs.Render
/-!
# C16 — Tabs are always expanded before reaching the terminal
-/
namespace IndicatifModel.Tab

theorem expand_no_tab (t : List Nat) (w : Nat) : 9 ∉ expand t w := by
  unfold expand
  intro h
  rw [List.mem_flatMap] at h
  obtain ⟨c, _, hc⟩ := h
  split at hc
  · rw [List.mem_replicate] at hc; omega
  · simp at hc; omega

/-- a `TabExpandedString` is consistent with tab width `w` -/
def TES.Ok (w : Nat) : TES → Prop
  | .noTabs s => 9 ∉ s
  | .withTabs o c tw => tw = w ∧ ∀ x, c = some x → x = expand o w

theorem new_ok (s : List Nat) (w : Nat) : (TES.new s w).Ok w := by
  unfold TES.new
  split
  · exact ⟨rfl, by intro x h; cases h⟩
  · rename_i h; simpa [TES.Ok] using h

theorem setTabWidth_ok (t : TES) (w w2 : Nat) (h : t.Ok w) : (t.setTabWidth w2).Ok w2 := by
  cases t with
  | noTabs s => exact h
  | withTabs o c tw =>
    obtain ⟨h1, h2⟩ := h
    by_cases hne : tw ≠ w2
    · have he : (TES.withTabs o c tw).setTabWidth w2 = .withTabs o none w2 := by simp [TES.setTabWidth, hne]
      rw [he]
      exact ⟨rfl, by intro x hx; cases hx⟩
    · have heq : tw = w2 := Decidable.not_not.mp hne
      have he : (TES.withTabs o c tw).setTabWidth w2 = .withTabs o c tw := by simp [TES.setTabWidth, heq]
      rw [he]
      subst heq; subst h1
      exact ⟨rfl, h2⟩

theorem expanded_ok (t : TES) (w : Nat) (h : t.Ok w) : t.expanded.2.Ok w ∧ 9 ∉ t.expanded.1 ∧
    (∀ o c tw, t = .withTabs o c tw → t.expanded.1 = expand o w) := by
  cases t with
  | noTabs s => exact ⟨h, h, by intro o c tw hh; cases hh⟩
  | withTabs o c tw =>
    obtain ⟨h1, h2⟩ := h
    subst h1
    cases c with
    | none =>
      refine ⟨⟨rfl, by intro x hx; cases hx; rfl⟩, expand_no_tab _ _, ?_⟩
      intro o' c' tw' hh; cases hh; rfl
    | some x =>
      have hx := h2 x rfl
      refine ⟨⟨rfl, h2⟩, ?_, ?_⟩
      · show 9 ∉ x; rw [hx]; exact expand_no_tab _ _
      · intro o' c' tw' hh; cases hh; exact hx

/-- the bar-level invariant: everything that can reach the terminal is expanded with the bar's width -/
structure Inv (b : BarT) : Prop where
  msg : b.msg.Ok b.tabWidth
  pfx : b.pfx.Ok b.tabWidth
  lits : ∀ l ∈ b.style.literals, l.Ok b.tabWidth
  style : b.style.tabWidth = b.tabWidth

theorem init_inv : Inv {} := ⟨by simp [TES.Ok], by simp [TES.Ok], by intro l h; simp at h, rfl⟩

theorem step_inv (b : BarT) (op : Op) (h : Inv b) : Inv (step b op) := by
  cases op with
  | setTabWidth w =>
    refine ⟨setTabWidth_ok _ _ _ h.msg, setTabWidth_ok _ _ _ h.pfx, ?_, rfl⟩
    intro l hl
    simp only [step, StyleT.setTabWidth, List.mem_map] at hl
    obtain ⟨l0, hl0, rfl⟩ := hl
    exact setTabWidth_ok _ _ _ (h.lits l0 hl0)
  | setStyle lits ck =>
    refine ⟨h.msg, h.pfx, ?_, rfl⟩
    intro l hl
    simp only [step, StyleT.setTabWidth, List.mem_map] at hl
    obtain ⟨l0, ⟨s0, _, rfl⟩, rfl⟩ := hl
    exact setTabWidth_ok _ 8 _ (new_ok s0 8)
  | setMessage s => exact ⟨new_ok s _, h.pfx, h.lits, h.style⟩
  | setPrefix s => exact ⟨h.msg, new_ok s _, h.lits, h.style⟩
  | draw =>
    refine ⟨(expanded_ok _ _ h.msg).1, (expanded_ok _ _ h.pfx).1, ?_, h.style⟩
    intro l hl
    simp only [step, List.mem_map] at hl
    obtain ⟨l0, hl0, rfl⟩ := hl
    exact (expanded_ok _ _ (h.lits l0 hl0)).1

/-- **C16.** After any history of `set_tab_width`, `set_style`, `set_message`, `set_prefix` and draws,
no text that reaches the terminal contains a TAB. -/
theorem C16_no_tab (ops : List Op) : ∀ t ∈ rendered (ops.foldl step {}), 9 ∉ t := by
  have hinv : ∀ (ops : List Op) (b : BarT), Inv b → Inv (ops.foldl step b) := by
    intro ops
    induction ops with
    | nil => intro b h; exact h
    | cons op ops ih => intro b h; exact ih _ (step_inv b op h)
  have h := hinv ops {} init_inv
  intro t ht
  simp only [rendered, List.mem_append, List.mem_map, List.mem_cons, List.mem_nil_iff, or_false] at ht
  rcases ht with ⟨l, hl, rfl⟩ | rfl | rfl | rfl
  · exact (expanded_ok _ _ (h.lits l hl)).2.1
  · exact (expanded_ok _ _ h.msg).2.1
  · exact (expanded_ok _ _ h.pfx).2.1
  · exact expand_no_tab _ _

/-- **the source as translated**: the tab width every bar and every freshly built style starts with is the source's
`DEFAULT_TAB_WIDTH` (regenerated on every run) -/
theorem C16_source_default_tab_width :
    ({} : BarT).tabWidth = Generated.defaultTabWidth ∧ ({ literals := [] } : StyleT).tabWidth = Generated.defaultTabWidth :=
  ⟨GenBridge.defaults_eq.1, GenBridge.defaults_eq.2.1⟩

/-- **C16 (the lines of a frame).** Whatever the template — wide elements, fields with width, alignment and truncation,
line breaks inside the texts — if the texts `format_state` reads hold no TAB (message and prefix by `C16_no_tab`, custom
keys through `TabRewriter`, the remaining keys print digits, units and progress characters), no line it hands to the
draw target holds one: the literals are expanded on the way (`litText`), padding adds blanks only, truncation only drops
characters, and the wide element is filled with the message or the bar. -/
theorem C16_no_tab_in_lines (env : Render.Env) (he : Render.EnvNoTab env) (parts : List Template.Part) :
    ∀ l ∈ Render.formatState env parts, ∀ g ∈ l, g.cp ≠ 9 :=
  Render.formatState_noTab env he parts

end IndicatifModel.Tab
