import IndicatifModel.Model.Adaptors
/-!
# C17 — adaptors count exactly (I/O wrappers, model level)
-/
namespace IndicatifModel.Adaptors

/-- **C17 (counting), one call**: every wrapped call, as the wrappers are in the repository now, moves the position
exactly as demanded -/
theorem C17_counts_step (pos : Nat) (e : Ev) : posAfter AFix.current pos e = specAfter pos e := by
  cases e with
  | transfer r => cases r <;> rfl
  | readExact len r => cases r <;> rfl
  | pollRead filled r => cases r <;> rfl
  | noCount => rfl
  | consume amt => rfl
  | seek r => cases r <;> rfl
  | pollFillBuf r => cases r <;> rfl
  | aconsume amt => rfl
  | pollComplete r => cases r <;> rfl

/-- **every call sequence** -/
theorem C17_counts (pos : Nat) (evs : List Ev) :
    run AFix.current pos evs = (evs.foldl (fun (acc : Nat × List Nat) e => (specAfter acc.1 e, acc.2 ++ [specAfter acc.1 e])) (pos, [])).2 := by
  have gen : ∀ (evs : List Ev) (pos : Nat) (pre : List Nat),
      (evs.foldl (fun (acc : Nat × List Nat) e => (specAfter acc.1 e, acc.2 ++ [specAfter acc.1 e])) (pos, pre)).2
        = pre ++ run AFix.current pos evs := by
    intro evs
    induction evs with
    | nil => intro pos pre; simp [run]
    | cons e es ih =>
      intro pos pre
      simp only [List.foldl_cons, run]
      rw [ih, C17_counts_step]
      simp
  rw [gen]; simp

/-- the pinned `AsyncBufRead` wrapper does not have the property: a 10-byte buffer looked at twice and
3 bytes consumed leaves the position at 20 instead of 3 (candidate F16) -/
theorem C17_fails_unrepaired_fill :
    run {} 0 [.pollFillBuf (.ok 10), .pollFillBuf (.ok 10), .aconsume 3] = [10, 20, 20] ∧
    run AFix.current 0 [.pollFillBuf (.ok 10), .pollFillBuf (.ok 10), .aconsume 3] = [0, 0, 3] := by
  decide

/-- nor does the pinned `AsyncSeek` wrapper (candidate F28) -/
theorem C17_fails_unrepaired_seek :
    run {} 5 [.pollComplete (.ok 17)] = [5] ∧ run AFix.current 5 [.pollComplete (.ok 17)] = [17] := by
  decide

end IndicatifModel.Adaptors
