import IndicatifModel.Model.Adaptors
import IndicatifModel.Model.IterWrap
import IndicatifModel.Generated.Overrides
/-!
# C17 — adaptors count exactly (I/O wrappers, model level)
-/
namespace IndicatifModel.Adaptors

/-- **C17 (counting), one call**: every wrapped call, as the wrappers are in the repository now, moves the position
exactly as demanded -/
theorem C17_counts_step (pos : Nat) (e : Ev) : posAfter AFix.current pos e = specAfter pos e := by
  cases e with
  | transfer r => cases r <;> rfl
  | readExact len r => cases r <;> rfl
  | pollRead filled r => cases r <;> rfl
  | noCount => rfl
  | consume amt => rfl
  | seek r => cases r <;> rfl
  | pollFillBuf r => cases r <;> rfl
  | aconsume amt => rfl
  | pollComplete r => cases r <;> rfl

/-- **every call sequence** -/
theorem C17_counts (pos : Nat) (evs : List Ev) :
    run AFix.current pos evs = (evs.foldl (fun (acc : Nat × List Nat) e => (specAfter acc.1 e, acc.2 ++ [specAfter acc.1 e])) (pos, [])).2 := by
  have gen : ∀ (evs : List Ev) (pos : Nat) (pre : List Nat),
      (evs.foldl (fun (acc : Nat × List Nat) e => (specAfter acc.1 e, acc.2 ++ [specAfter acc.1 e])) (pos, pre)).2
        = pre ++ run AFix.current pos evs := by
    intro evs
    induction evs with
    | nil => intro pos pre; simp [run]
    | cons e es ih =>
      intro pos pre
      simp only [List.foldl_cons, run]
      rw [ih, C17_counts_step]
      simp
  rw [gen]; simp

/-- the pinned `AsyncBufRead` wrapper does not have the property: a 10-byte buffer looked at twice and
3 bytes consumed leaves the position at 20 instead of 3 (candidate F16) -/
theorem C17_fails_unrepaired_fill :
    run {} 0 [.pollFillBuf (.ok 10), .pollFillBuf (.ok 10), .aconsume 3] = [10, 20, 20] ∧
    run AFix.current 0 [.pollFillBuf (.ok 10), .pollFillBuf (.ok 10), .aconsume 3] = [0, 0, 3] := by
  decide

/-- nor does the pinned `AsyncSeek` wrapper (candidate F28) -/
theorem C17_fails_unrepaired_seek :
    run {} 5 [.pollComplete (.ok 17)] = [5] ∧ run AFix.current 5 [.pollComplete (.ok 17)] = [17] := by
  decide

end IndicatifModel.Adaptors

/-! ## The iterator wrapper: transparency, counting, finishing on exhaustion -/
namespace IndicatifModel.IterWrap
open Position

/-- item answers of a transcript (latest first), oldest first -/
def itemAnswers {α : Type} : List (Ans α) → List (Option α)
  | [] => []
  | .item r :: tr => itemAnswers tr ++ [r]
  | .hint _ _ :: tr => itemAnswers tr

theorem wrapCall_ans {U α : Type} (I : Under U α) (u : U) (b : St) (c : Call) :
    (wrapCall I u b c).1 = (bareCall I u c).1 ∧ (wrapCall I u b c).2.1 = (bareCall I u c).2 := by
  cases c <;> exact ⟨rfl, rfl⟩

/-- **C17, transparency of the iterator wrapper.** Whatever the underlying iterator (fused or not, finite or not) and
whatever the caller does — any program that picks its next call among `next`, `next_back` and `size_hint` from the answers
it has seen, which covers every default method of `Iterator` (`nth`, `fold`, `count`, `last`, `step_by`, `skip`, `zip`, ...) —
the wrapped iterator gives the same answers, in the same order, and leaves the underlying iterator in the same state as the
bare one; the bar has no influence on either. -/
theorem C17_iter_transparent {U α : Type} (I : Under U α) (c : Client α) : ∀ (fuel : Nat) (u : U) (b : St) (tr : List (Ans α)),
    (runWrap I c fuel u b tr).1 = (runBare I c fuel u tr).1 ∧ (runWrap I c fuel u b tr).2.1 = (runBare I c fuel u tr).2
  | 0, _, _, _ => ⟨rfl, rfl⟩
  | fuel + 1, u, b, tr => by
    simp only [runWrap, runBare]
    cases c tr with
    | none => exact ⟨rfl, rfl⟩
    | some call =>
      have h := wrapCall_ans I u b call
      simp only
      rw [h.1, h.2]
      exact C17_iter_transparent I c fuel _ _ _

theorem wrapCall_bar {U α : Type} (I : Under U α) (u : U) (b b0 : St) (c : Call) (tr : List (Ans α))
    (h : b = barAfter b0 (itemAnswers tr)) :
    (wrapCall I u b c).2.2 = barAfter b0 (itemAnswers ((wrapCall I u b c).1 :: tr)) := by
  cases c <;> simp [wrapCall, itemAnswers, barAfter, List.foldl_append, h]

/-- the bar after any run is determined by the item answers alone: one `inc(1)` per item, the configured finish at an
end-of-iteration answer unless already finished; `size_hint` never touches the bar -/
theorem runWrap_bar {U α : Type} (I : Under U α) (c : Client α) (b0 : St) : ∀ (fuel : Nat) (u : U) (b : St) (tr : List (Ans α)),
    b = barAfter b0 (itemAnswers tr) →
    (runWrap I c fuel u b tr).2.2 = barAfter b0 (itemAnswers (runWrap I c fuel u b tr).1)
  | 0, _, _, _, h => h
  | fuel + 1, u, b, tr, h => by
    simp only [runWrap]
    cases c tr with
    | none => exact h
    | some call => exact runWrap_bar I c b0 fuel _ _ _ (wrapCall_bar I u b b0 call tr h)

theorem barAfter_somes {α : Type} : ∀ (answers : List (Option α)) (b : St), (∀ r ∈ answers, r.isSome) → b.pos < U64 →
    (barAfter b answers).pos = (b.pos + answers.length) % U64 ∧ (barAfter b answers).finished = b.finished ∧
    (barAfter b answers).len = b.len ∧ (barAfter b answers).moves = b.moves
  | [], b, _, hp => ⟨by simp [barAfter, Nat.mod_eq_of_lt hp], rfl, rfl, rfl⟩
  | r :: rs, b, h, hp => by
    have hr : r.isSome := h r (by simp)
    cases r with
    | none => cases hr
    | some x =>
      have hpos : (step b (.inc 1)).pos < U64 := Nat.mod_lt _ (by decide +kernel)
      have ih := barAfter_somes rs (step b (.inc 1)) (fun r hr => h r (by simp [hr])) hpos
      simp only [barAfter, List.foldl_cons, onItem] at ih ⊢
      refine ⟨?_, ih.2.1, ih.2.2.1, ih.2.2.2⟩
      rw [ih.1]
      simp only [step, wrapAdd, List.length_cons]
      rw [Nat.mod_add_mod]
      congr 1; omega

/-- **C17, counting and finishing of the iterator wrapper.** After any run of any caller on any underlying iterator, started
with a fresh transcript: as long as no end-of-iteration answer was given the position has advanced by exactly the number of
items handed to the caller (mod 2^64) and the bar is not finished by the wrapper; -/
theorem C17_iter_counts {U α : Type} (I : Under U α) (c : Client α) (fuel : Nat) (u : U) (b : St) (hp : b.pos < U64)
    (hall : ∀ r ∈ itemAnswers (runWrap I c fuel u b []).1, r.isSome) :
    (runWrap I c fuel u b []).2.2.pos = (b.pos + (itemAnswers (runWrap I c fuel u b []).1).length) % U64 ∧
    (runWrap I c fuel u b []).2.2.finished = b.finished ∧ (runWrap I c fuel u b []).2.2.len = b.len := by
  rw [runWrap_bar I c b fuel u b [] rfl]
  have h := barAfter_somes _ b hall hp
  exact ⟨h.1, h.2.1, h.2.2.1⟩

theorem onItem_none_finished {α : Type} (b : St) : (onItem b (none : Option α)).finished = true := by
  cases hf : b.finished <;> cases hm : b.moves <;> simp [onItem, step, hf, hm]

theorem onItem_keeps_finished {α : Type} (b : St) (r : Option α) (h : b.finished = true) : (onItem b r).finished = true := by
  cases r with
  | none => exact onItem_none_finished b
  | some x => simpa [onItem, step] using h

theorem barAfter_keeps_finished {α : Type} : ∀ (answers : List (Option α)) (b : St), b.finished = true → (barAfter b answers).finished = true
  | [], _, h => h
  | r :: rs, b, h => barAfter_keeps_finished rs _ (onItem_keeps_finished b r h)

/-- **exhaustion finishes the bar, once.** The first end-of-iteration answer applies the configured finish behaviour
(position := length when it is one of the finishing kinds and a length is set, unchanged for the abandoning kinds; finished),
a bar that is finished already is left exactly as it is (so a second `None`, or a `None` after the user finished the bar by hand,
changes nothing), and once finished the bar stays finished whatever the iterator answers later -/
theorem C17_iter_exhaustion {α : Type} (b : St) :
    (b.finished = false → onItem b (none : Option α) = step b .finishStyle ∧
      (onItem b (none : Option α)).finished = true ∧
      (onItem b (none : Option α)).pos = (if b.moves then b.len.getD b.pos else b.pos)) ∧
    (b.finished = true → onItem b (none : Option α) = b) ∧
    onItem (onItem b (none : Option α)) (none : Option α) = onItem b (none : Option α) ∧
    (∀ answers : List (Option α), (barAfter (onItem b (none : Option α)) answers).finished = true) := by
  refine ⟨fun h => ?_, fun h => by simp [onItem, h], ?_, fun answers => barAfter_keeps_finished answers _ (onItem_none_finished b)⟩
  · refine ⟨by simp [onItem, h], onItem_none_finished b, ?_⟩
    simp only [onItem, h, step]
    by_cases hm : b.moves = true <;> simp [hm]
  · have hf := onItem_none_finished (α := α) b
    show (if (onItem b (none : Option α)).finished = true then onItem b none else _) = _
    rw [if_pos hf]

/-- non-vacuity: `nth(1)` twice then `next` on a three-item list iterator with length 9 and a finishing behaviour -/
example :
    let c : Client Nat := fun tr => if tr.length < 6 then some .next else none
    (runWrap (listUnder Nat) c 10 [7, 8, 9] { len := some 9 } []).1 = (runBare (listUnder Nat) c 10 [7, 8, 9] []).1 ∧
    (runWrap (listUnder Nat) c 10 [7, 8, 9] { len := some 9 } []).2.2.pos = 9 ∧
    (runWrap (listUnder Nat) c 10 [7, 8, 9] { len := some 9 } []).2.2.finished = true := by
  decide

/-- **the `Stream` wrapper**: a `Pending` poll leaves the bar exactly as it is, a `Ready` poll is what the iterator wrapper does
with the same answer; hence after any sequence of polls the bar is the iterator wrapper's bar after the `Ready` answers alone —
`C17_iter_counts` and `C17_iter_exhaustion` apply to streams as they stand, however many `Pending` polls come in between -/
theorem C17_stream_polls {α : Type} : ∀ (polls : List (Option (Option α))) (b : St),
    polls.foldl onPoll b = barAfter b (polls.filterMap id)
  | [], _ => rfl
  | none :: ps, b => by
    simp only [List.foldl_cons, onPoll, List.filterMap_cons, id]
    exact C17_stream_polls ps b
  | some r :: ps, b => by
    simp only [List.foldl_cons, onPoll, List.filterMap_cons, id, barAfter]
    exact C17_stream_polls ps (onItem b r)

/-- **the source as regenerated** (`tools/gen_overrides.py`, every run): the trait methods `ProgressBarIter` defines itself are
exactly the ones the adaptor models transcribe — `next`, `size_hint`, `len`, `next_back` for iterators; `read`, `read_vectored`,
`read_to_string`, `read_exact`, `fill_buf`, `consume`, `seek`, `stream_position`, `write`, `write_vectored`, `flush` for blocking
I/O; the `poll_*` / `start_seek` / `consume` methods of the tokio traits and `poll_next`, `size_hint` of `Stream`. Every other
method of these traits (`nth`, `step_by`, `fold`, `read_to_end`, `write_all`, `write_fmt`, …) is the standard library's provided
one and reaches the wrapped value only through these, which is what "every adaptive caller" in `C17_iter_transparent` /
`C17_iter_counts` covers. A new override (or a removed one) changes the list and this theorem is no longer checked. -/
theorem C17_source_overrides : Generated.iterOverrides = [
    ("Iterator", ["next", "size_hint"]),
    ("ExactSizeIterator", ["len"]),
    ("DoubleEndedIterator", ["next_back"]),
    ("FusedIterator", []),
    ("io::Read", ["read", "read_vectored", "read_to_string", "read_exact"]),
    ("io::BufRead", ["fill_buf", "consume"]),
    ("io::Seek", ["seek", "stream_position"]),
    ("tokio::io::AsyncWrite", ["poll_write", "poll_flush", "poll_shutdown"]),
    ("tokio::io::AsyncRead", ["poll_read"]),
    ("tokio::io::AsyncSeek", ["start_seek", "poll_complete"]),
    ("tokio::io::AsyncBufRead", ["poll_fill_buf", "consume"]),
    ("futures_core::Stream", ["poll_next", "size_hint"]),
    ("io::Write", ["write", "write_vectored", "flush"])] := by decide

/-- the same for the rayon adaptor: the producer / consumer / folder types define exactly the required methods (no `fold_with`,
`consume_iter`, `opt_len` of their own), so items are counted one by one where rayon's provided methods hand them over — a
batching override changes this list -/
theorem C17_source_rayon_overrides : Generated.rayonOverrides = [
    ("IndexedParallelIterator", "ProgressBarIter", ["len", "drive", "with_producer"]),
    ("Producer", "ProgressProducer", ["into_iter", "min_len", "max_len", "split_at"]),
    ("Iterator", "CountingIter", ["next", "size_hint"]),
    ("ExactSizeIterator", "CountingIter", ["len"]),
    ("DoubleEndedIterator", "CountingIter", ["next_back"]),
    ("Consumer", "ProgressConsumer", ["split_at", "into_folder", "full"]),
    ("UnindexedConsumer", "ProgressConsumer", ["split_off_left", "to_reducer"]),
    ("Folder", "ProgressFolder", ["consume", "complete", "full"]),
    ("ParallelIterator", "ProgressBarIter", ["drive_unindexed"])] := by decide

end IndicatifModel.IterWrap
