import IndicatifModel.Props.C06
/-!
# C18 — terminal I/O failures leave the logical state alone (single bar, model level)

A failing terminal can only change what happens inside the draw target (calls cut short, the row
count not updated).  `C06_equivalent` says that nothing in the target ever feeds back into the rest
of the bar, so the run with failures and the run without agree on everything but the target.
-/
namespace IndicatifModel

/-- any two runs of the same calls whose bars differ only in their targets — e.g. because the
terminal of one of them failed at arbitrary points before or during the history — expose the same
position, length, message, prefix, tick and status afterwards.

`_partial`: the failing terminal is represented by its effect on the target *before* each call; a
step function that takes the fault plan as an argument (calls cut short inside one draw) and the
`unwrap` sites as explicit panics are still to be modelled (full statement: DESIGN.md, C18). -/
theorem C18_logical_unaffected_partial (ops : List (Nat × BarOp)) (good faulty : Bar)
    (h : good.core = faulty.core) : (runBar good ops).logical = (runBar faulty ops).logical :=
  C06_logical_equal ops good faulty h

end IndicatifModel
