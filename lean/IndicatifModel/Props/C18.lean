import IndicatifModel.Props.C06
import IndicatifModel.Proofs.Faults
import IndicatifModel.Generated.Unwraps
/-!
# C18 — terminal I/O failures never panic, poison or corrupt logical state

Two levels.

* Single bar (`C18_logical_unaffected_partial`): nothing in a draw target feeds back into the rest of the
  bar, so runs whose targets differ — for instance because a terminal failed — agree on the logical state.
* MultiProgress with a fault plan (`Model/Faults.lean`, validated against the fault-injected crate by the
  `C18F` stream): the operations of the repaired code with every terminal call subject to "the `k`-th call
  fails (and all later ones)". For **every** history and **every** pair of fault plans the two runs agree on
  every bar's position, length, message, prefix and status, on membership and order, and on whether a call
  panicked (`C18_faults_change_nothing`); `println`/`clear` report exactly whether one of their terminal
  calls failed (`C18_reported`); and the pinned code's `unwrap()` in `suspend` does panic and poison
  (`C18_pinned_suspend_panics`).
-/
namespace IndicatifModel

/-- any two runs of the same calls whose bars differ only in their targets — e.g. because the
terminal of one of them failed at arbitrary points before or during the history — expose the same
position, length, message, prefix, tick and status afterwards.

`_partial`: single bar, and the failing terminal is represented by its effect on the target *before* each
call; the step function with a fault plan is the MultiProgress model below. -/
theorem C18_logical_unaffected_partial (ops : List (Nat × BarOp)) (good faulty : Bar)
    (h : good.core = faulty.core) : (runBar good ops).logical = (runBar faulty ops).logical :=
  C06_logical_equal ops good faulty h

end IndicatifModel

namespace IndicatifModel.Faults
open FW

/-- **Faults change nothing that matters.** Start the same MultiProgress world under two fault plans
(any `k`, sticky or not, or none at all) and run any history: afterwards every bar has the same position,
length, message, prefix and status in both runs, the same bars are members in the same order with the same
slots, the frame-stale flag and the limiter agree, and a call panicked in one run iff it did in the other —
so a failing terminal causes no panic that the working terminal would not cause (the only panic left in the
model is `insert_before/after` on a bar that is not a member, which is the caller's error). -/
theorem C18_faults_change_nothing (w : FW) (hu : w.unwrapSites = false) (plan plan' : FS) (ops : List MOp) :
    let a := ({ w with fs := plan } : FW).run ops
    let b := ({ w with fs := plan' } : FW).run ops
    a.logical = b.logical ∧ a.bars = b.bars ∧ a.panicked = b.panicked ∧
    a.multi.ordering = b.multi.ordering ∧ a.multi.members = b.multi.members ∧ a.multi.free = b.multi.free ∧
    a.multi.stale = b.multi.stale ∧ a.multi.target.limiter = b.multi.target.limiter := by
  intro a b
  have h0 : SameW ({ w with fs := plan } : FW) ({ w with fs := plan' } : FW) := ⟨Same.refl _, rfl, rfl, rfl, hu, hu⟩
  have h := run_same ops _ _ h0
  exact ⟨by simp only [logical, a, b, h.bars], h.bars, h.panicked, h.multi.ordering, h.multi.members, h.multi.free,
    h.multi.stale, h.multi.target.limiter⟩

/-- in particular: the logical state under any fault plan is that of the run on a working terminal -/
theorem C18_logical_unaffected (w : FW) (hu : w.unwrapSites = false) (plan : FS) (ops : List MOp) :
    (({ w with fs := plan } : FW).run ops).logical = (({ w with fs := {} } : FW).run ops).logical :=
  (C18_faults_change_nothing w hu plan {} ops).1

/-- … and a fault never makes a call panic -/
theorem C18_no_panic_from_faults (w : FW) (hu : w.unwrapSites = false) (plan : FS) (ops : List MOp) :
    (({ w with fs := plan } : FW).run ops).panicked = (({ w with fs := {} } : FW).run ops).panicked :=
  (C18_faults_change_nothing w hu plan {} ops).2.2.1

theorem paintF_reported (tt : TermTarget) (ds : DrawState) (s : FS) :
    ((paintF tt ds s).2.2 = true ↔ (paintF tt ds s).2.1.failed = s.failed) ∧ s.failed ≤ (paintF tt ds s).2.1.failed := by
  unfold paintF
  simp only []
  split
  · exact ⟨⟨fun _ => rfl, fun _ => rfl⟩, Nat.le_refl _⟩
  · split
    · exact ⟨⟨fun _ => rfl, fun _ => rfl⟩, Nat.le_refl _⟩
    · refine ⟨⟨fun h => (by cases h), fun h => ?_⟩, Nat.le_succ _⟩
      simp only at h
      omega

/-- **Errors are reported.** `MultiProgress::println` and `MultiProgress::clear` return `Ok` exactly when
none of the terminal calls they made failed, for every state, every text and every fault plan. -/
theorem C18_reported (w : FW) (hp : w.panicked = false) (t : Text) :
    (∃ ok, (w.step (.mpPrintln t)).2 = some ok ∧ (ok = true ↔ (w.step (.mpPrintln t)).1.fs.failed = w.fs.failed)) ∧
    (∃ ok, (w.step .mpClear).2 = some ok ∧ (ok = true ↔ (w.step .mpClear).1.fs.failed = w.fs.failed)) := by
  constructor
  · refine ⟨(printlnF w.multi t w.now w.fs).2.2, by simp only [step, hp, Bool.false_eq_true, if_false, stepGo], ?_⟩
    simp only [step, hp, Bool.false_eq_true, if_false, stepGo, printlnF, drawF, Bool.true_or, TermTarget.drawable, if_true,
      Bool.not_true, drawGo]
    exact (paintF_reported _ _ _).1
  · refine ⟨(clearF w.multi w.fs).2.2, by simp only [step, hp, Bool.false_eq_true, if_false, stepGo], ?_⟩
    simp only [step, hp, Bool.false_eq_true, if_false, stepGo, clearF]
    exact (paintF_reported _ _ _).1

/-- **A panic poisons.** Once a call has panicked (the write lock is poisoned) no later call does anything. -/
theorem C18_panic_is_absorbing (w : FW) (hp : w.panicked = true) (ops : List MOp) : w.run ops = w := by
  induction ops with
  | nil => rfl
  | cons op ops ih =>
    have : (w.step op).1 = w := by simp only [step, hp, if_true]
    simp only [run, List.foldl_cons, this]
    exact ih

/-- **The pinned code does panic** (finding F19): `MultiState::suspend` unwrapped its two draws while
holding the write lock. With the very first terminal call failing, `suspend` panics — and the repaired
code (`let _ =`) does not. -/
theorem C18_pinned_suspend_panics :
    let m : Multi := { target := { W := 20, H := 10, fx := Fixes.current } }
    let plan : FS := { fault := some (0, false) }
    (({ multi := m, now := 0, fs := plan, unwrapSites := true } : FW).run [.mpSuspend []]).panicked = true ∧
    (({ multi := m, now := 0, fs := plan, unwrapSites := false } : FW).run [.mpSuspend []]).panicked = false := by
  constructor <;> decide +kernel

/-- non-vacuity: a history in which a sticky fault strikes in the middle of the second frame — the failing
`println` reports the error, later draws fail too, and the bar's state is the same as without the fault -/
example :
    let m : Multi := { target := { W := 20, H := 10, fx := Fixes.current } }
    let ops : List MOp := [.add 0 0 (some 10) 1 .andLeave [⟨65, 1⟩], .bar 0 .tick, .mpPrintln [⟨76, 1⟩], .bar 0 (.inc 3), .bar 0 (.finish .andLeave)]
    let good := ({ multi := m, now := 0 } : FW).run ops
    let bad := ({ multi := m, now := 0, fs := { fault := some (7, true) } } : FW).run ops
    bad.fs.failed = 3 ∧ good.fs.failed = 0 ∧ bad.logical = good.logical ∧ bad.panicked = false ∧
    ((({ multi := m, now := 0, fs := { fault := some (7, true) } } : FW).run (ops.take 2)).step (.mpPrintln [⟨76, 1⟩])).2 = some false := by
  refine ⟨?_, ?_, ?_, ?_, ?_⟩ <;> decide +kernel

/-- **no `unwrap()` on the result of a terminal operation**, re-extracted from the sources on every run (`tools/gen_unwraps.py`:
every `.unwrap()` / `.expect(..)` of the non-test code of `state.rs`, `multi.rs`, `progress_bar.rs` and `draw_target.rs`, classified
by what it unwraps): each site unwraps a lock guard (no panic happens while a lock is held, `C18_no_panic_from_faults`), the
condition variable's wait, the documented anchor of `insert_before/after`, a slot index the slot invariant provides (C02), the head
of a non-empty ordering, `with_elapsed`'s subtraction or the limiter's `prev` — none an `io::Result`, and none the classifier does
not know. This is the model's `unwrapSites = false` (the hypothesis of the theorems above), checked against the code. -/
theorem C18_no_unwrap_of_io_results :
    ∀ site ∈ Generated.unwrapSites, site.2 ≠ .ioResult ∧ site.2 ≠ .other := by decide

end IndicatifModel.Faults
