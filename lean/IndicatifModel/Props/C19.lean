import IndicatifModel.Model.DrawTarget
/-!
# C19 — height overflow: the managed region never grows beyond the terminal
-/
namespace IndicatifModel

/-- the painting loop never counts more than `H` rows of bars, and never less than it started with -/
theorem paintLoop_real_bounds (fx : Fixes) (W H total : Nat) (nc up : Bool) (lines : List Line) :
    ∀ (idx real : Nat), real ≤ H →
      real ≤ (paintLoop fx W H total nc up idx real lines).2.1 ∧
      (paintLoop fx W H total nc up idx real lines).2.1 ≤ H ∧
      (paintLoop fx W H total nc up idx real lines).2.1 ≤ real + visualLineCount W lines := by
  induction lines with
  | nil => intro idx real h; simp only [paintLoop, visualLineCount, List.map_nil, List.sum_nil, Nat.add_zero]; exact ⟨Nat.le_refl _, h, Nat.le_refl _⟩
  | cons l ls ih =>
    intro idx real h
    unfold paintLoop
    dsimp only
    split
    · exact ⟨Nat.le_refl _, h, Nat.le_add_right _ _⟩
    · rename_i hc
      have hc' : ¬ (l.isBar = true ∧ real + wrappedHeight W l > H) := by
        intro hh; apply hc; simp only [Bool.and_eq_true, decide_eq_true_eq]; exact hh
      have hv : visualLineCount W (l :: ls) = wrappedHeight W l + visualLineCount W ls := by
        simp [visualLineCount]
      by_cases hb : l.isBar = true
      · have hle : real + wrappedHeight W l ≤ H := by
          rcases Nat.lt_or_ge H (real + wrappedHeight W l) with h1 | h1
          · exact absurd ⟨hb, h1⟩ hc'
          · exact h1
        simp only [hb, if_true]
        obtain ⟨a, b, c⟩ := ih (idx + 1) (real + wrappedHeight W l) hle
        refine ⟨by omega, b, by omega⟩
      · have hb' : l.isBar = false := by simpa using hb
        simp only [hb', Bool.false_eq_true, if_false]
        obtain ⟨a, b, c⟩ := ih (idx + 1) real h
        refine ⟨a, b, by omega⟩

/-- **C19**: if the previous frame was within the terminal, so is the new one — the top of the
managed region never scrolls out of reach, for every frame, width, height and repair set -/
theorem C19_llc_le_H (fx : Fixes) (ds : DrawState) (W H n : Nat) (h : n ≤ H) :
    (drawToTerm fx ds W H n).2 ≤ H := by
  unfold drawToTerm
  dsimp only
  obtain ⟨_, b, c⟩ := paintLoop_real_bounds fx W H ds.lines.length (n == 0) ds.unparked ds.lines 0 0 (Nat.zero_le _)
  have key : ∀ (c : Bool), (if c = true then (paintLoop fx W H ds.lines.length (n == 0) ds.unparked 0 0 ds.lines).2.1
      else (paintLoop fx W H ds.lines.length (n == 0) ds.unparked 0 0 ds.lines).2.1 +
        (if ds.alignment = .bottom ∧ visualLineCount W ds.lines < n then n - visualLineCount W ds.lines else 0)) ≤ H := by
    intro c
    cases c with
    | true => simpa using b
    | false =>
      simp only [Bool.false_eq_true, if_false]
      split
      · rename_i hs; have := hs.2; omega
      · simpa using b
  exact key _

/-- … for every history of frames: the count kept between draws never exceeds the terminal height,
so the cursor-up of the next redraw always reaches the first row of the region -/
theorem C19_history (fx : Fixes) (W H : Nat) (frames : List DrawState) :
    frames.foldl (fun n ds => (drawToTerm fx ds W H n).2) 0 ≤ H := by
  have gen : ∀ (frames : List DrawState) (n : Nat), n ≤ H →
      frames.foldl (fun n ds => (drawToTerm fx ds W H n).2) n ≤ H := by
    intro frames
    induction frames with
    | nil => intro n h; exact h
    | cons ds rest ih => intro n h; exact ih _ (C19_llc_le_H fx ds W H n h)
  exact gen frames 0 (Nat.zero_le _)

/-- **A frame after a cut-off frame whose rows were all kept starts on a fresh row** (repair of F33).
When the previous frame was cut off at the terminal height (`unparked`) and nothing is to be erased
(`n = 0`: its rows were handed over as zombie rows), the first thing written after the (empty) clearing
sequence is a line break — the new frame does not continue in the last kept row, so the rows the
`MultiProgress` later erases are exactly the rows it accounts for. -/
theorem C19_fresh_row_after_cutoff (fx : Fixes) (hfp : fx.fpark = true) (ds : DrawState) (W H : Nat) (l : Line) (ls : List Line)
    (hl : ds.lines = l :: ls) (hup : ds.unparked = true) (hmc : ds.moveCursor = false)
    (hfits : ¬ (l.isBar = true ∧ wrappedHeight W l > H)) :
    ∃ rest, (drawToTerm fx ds W H 0).1 = clearOps 0 ++ (TOp.writeLine [] :: TOp.writeStr l.gs :: rest) := by
  unfold drawToTerm
  have hc : (l.isBar && decide (0 + wrappedHeight W l > H)) = false := by
    cases hb : l.isBar with
    | false => simp
    | true =>
      have : ¬ (wrappedHeight W l > H) := fun h => hfits ⟨hb, h⟩
      simp [this]
  simp only [hmc, hl, Bool.false_eq_true, and_false, if_false, Nat.lt_irrefl, Nat.not_lt_zero, paintLoop, hc, hup, hfp,
    beq_self_eq_true, Bool.and_self, ne_eq, not_true_eq_false, if_true, List.replicate_zero, List.append_nil, Nat.sub_self,
    Nat.zero_sub, ite_self, List.nil_append, List.singleton_append, List.cons_append, List.append_assoc]
  exact ⟨_, rfl⟩

/-- … and a frame that is cut off after at least one bar row raises the flag (no filler was written) -/
theorem C19_cutoff_raises_flag (fx : Fixes) (hfp : fx.fpark = true) (ds : DrawState) (W H n : Nat) (written fill : Nat)
    (hp : (paintLoop fx W H ds.lines.length (n == 0) ds.unparked 0 0 ds.lines).2.2 = some (written, fill))
    (hcut : written ≠ ds.lines.length) (hreal : 0 < (paintLoop fx W H ds.lines.length (n == 0) ds.unparked 0 0 ds.lines).2.1) :
    unparkedAfter fx ds W H n = true := by
  unfold unparkedAfter
  simp only [hfp, Bool.not_true, Bool.false_eq_true, if_false, hp]
  have h1 : (written == ds.lines.length) = false := by simpa using hcut
  have h2 : ¬ ((paintLoop fx W H ds.lines.length (n == 0) ds.unparked 0 0 ds.lines).2.1 +
      (if ds.alignment = .bottom ∧ visualLineCount W ds.lines < n then n - visualLineCount W ds.lines else 0) = 0) := by omega
  simp only [h1, Bool.false_or, Bool.not_eq_true', beq_eq_false_iff_ne, ne_eq]
  exact h2

end IndicatifModel
