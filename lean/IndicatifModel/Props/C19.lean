import IndicatifModel.Model.DrawTarget
import IndicatifModel.Proofs.WideRows
import IndicatifModel.Proofs.GenBridgePadStep
/-!
# C19 — height overflow: the managed region never grows beyond the terminal
-/
namespace IndicatifModel

/-- the painting loop never counts more than `H` rows of bars, and never less than it started with -/
theorem paintLoop_real_bounds (fx : Fixes) (W H total : Nat) (nc up : Bool) (lines : List Line) :
    ∀ (idx real : Nat), real ≤ H →
      real ≤ (paintLoop fx W H total nc up idx real lines).2.1 ∧
      (paintLoop fx W H total nc up idx real lines).2.1 ≤ H ∧
      (paintLoop fx W H total nc up idx real lines).2.1 ≤ real + visualLineCount W lines := by
  induction lines with
  | nil => intro idx real h; simp only [paintLoop, visualLineCount, List.map_nil, List.sum_nil, Nat.add_zero]; exact ⟨Nat.le_refl _, h, Nat.le_refl _⟩
  | cons l ls ih =>
    intro idx real h
    unfold paintLoop
    dsimp only
    split
    · exact ⟨Nat.le_refl _, h, Nat.le_add_right _ _⟩
    · rename_i hc
      have hc' : ¬ (l.isBar = true ∧ real + wrappedHeight W l > H) := by
        intro hh; apply hc; simp only [Bool.and_eq_true, decide_eq_true_eq]; exact hh
      have hv : visualLineCount W (l :: ls) = wrappedHeight W l + visualLineCount W ls := by
        simp [visualLineCount]
      by_cases hb : l.isBar = true
      · have hle : real + wrappedHeight W l ≤ H := by
          rcases Nat.lt_or_ge H (real + wrappedHeight W l) with h1 | h1
          · exact absurd ⟨hb, h1⟩ hc'
          · exact h1
        simp only [hb, if_true]
        obtain ⟨a, b, c⟩ := ih (idx + 1) (real + wrappedHeight W l) hle
        refine ⟨by omega, b, by omega⟩
      · have hb' : l.isBar = false := by simpa using hb
        simp only [hb', Bool.false_eq_true, if_false]
        obtain ⟨a, b, c⟩ := ih (idx + 1) real h
        refine ⟨a, b, by omega⟩

/-- **C19**: if the previous frame was within the terminal, so is the new one — the top of the
managed region never scrolls out of reach, for every frame, width, height and repair set -/
theorem C19_llc_le_H (fx : Fixes) (ds : DrawState) (W H n : Nat) (h : n ≤ H) :
    (drawToTerm fx ds W H n).2 ≤ H := by
  unfold drawToTerm
  dsimp only
  obtain ⟨_, b, c⟩ := paintLoop_real_bounds fx W H ds.lines.length (n == 0) ds.unparked ds.lines 0 0 (Nat.zero_le _)
  have key : ∀ (c : Bool), (if c = true then (paintLoop fx W H ds.lines.length (n == 0) ds.unparked 0 0 ds.lines).2.1
      else (paintLoop fx W H ds.lines.length (n == 0) ds.unparked 0 0 ds.lines).2.1 +
        (if ds.alignment = .bottom ∧ visualLineCount W ds.lines < n then n - visualLineCount W ds.lines else 0)) ≤ H := by
    intro c
    cases c with
    | true => simpa using b
    | false =>
      simp only [Bool.false_eq_true, if_false]
      split
      · rename_i hs; have := hs.2; omega
      · simpa using b
  exact key _

/-- … for every history of frames: the count kept between draws never exceeds the terminal height,
so the cursor-up of the next redraw always reaches the first row of the region -/
theorem C19_history (fx : Fixes) (W H : Nat) (frames : List DrawState) :
    frames.foldl (fun n ds => (drawToTerm fx ds W H n).2) 0 ≤ H := by
  have gen : ∀ (frames : List DrawState) (n : Nat), n ≤ H →
      frames.foldl (fun n ds => (drawToTerm fx ds W H n).2) n ≤ H := by
    intro frames
    induction frames with
    | nil => intro n h; exact h
    | cons ds rest ih => intro n h; exact ih _ (C19_llc_le_H fx ds W H n h)
  exact gen frames 0 (Nat.zero_le _)

/-! ## which lines are painted when the bars do not all fit -/

/-- the leading lines that fit: text lines always, a bar line as long as its rows still fit below the bar rows counted so far -/
def fitPrefix (W H : Nat) : Nat → List Line → List Line
  | _, [] => []
  | real, l :: ls =>
    if l.isBar && decide (real + wrappedHeight W l > H) then []
    else l :: fitPrefix W H (if l.isBar then real + wrappedHeight W l else real) ls

/-- rows of the bar lines among `ls` -/
def barRowsOf (W : Nat) (ls : List Line) : Nat := ((ls.filter (·.isBar)).map (wrappedHeight W)).sum

theorem fitPrefix_prefix (W H : Nat) : ∀ (ls : List Line) (real : Nat), fitPrefix W H real ls <+: ls := by
  intro ls
  induction ls with
  | nil => intro real; simp [fitPrefix]
  | cons l ls ih =>
    intro real
    unfold fitPrefix
    split
    · exact List.nil_prefix
    · exact (List.cons_prefix_cons).mpr ⟨rfl, ih _⟩

/-- **the painting loop paints exactly the leading lines that fit**: the bar rows it counts are those of `fitPrefix`, the
number of lines it reports as written is the length of `fitPrefix` (none if it is empty) -/
theorem paintLoop_fitPrefix (fx : Fixes) (W H total : Nat) (nc up : Bool) : ∀ (lines : List Line) (idx real : Nat),
    (paintLoop fx W H total nc up idx real lines).2.1 = real + barRowsOf W (fitPrefix W H real lines) ∧
    ((paintLoop fx W H total nc up idx real lines).2.2).map (·.1) =
      (if fitPrefix W H real lines = [] then none else some (idx + (fitPrefix W H real lines).length)) := by
  intro lines
  induction lines with
  | nil => intro idx real; simp [paintLoop, fitPrefix, barRowsOf]
  | cons l ls ih =>
    intro idx real
    unfold paintLoop fitPrefix
    dsimp only
    split
    · simp [barRowsOf]
    · obtain ⟨h1, h2⟩ := ih (idx + 1) (if l.isBar then real + wrappedHeight W l else real)
      refine ⟨?_, ?_⟩
      · rw [h1]
        by_cases hb : l.isBar = true
        · simp [hb, barRowsOf, List.filter_cons]; omega
        · have hb' : l.isBar = false := by simpa using hb
          simp [hb', barRowsOf, List.filter_cons]
      · simp only [List.cons_ne_nil, if_false, List.length_cons]
        cases hr : (paintLoop fx W H total nc up (idx + 1) (if l.isBar = true then real + wrappedHeight W l else real) ls).2.2 with
        | none =>
          rw [hr] at h2
          have : fitPrefix W H (if l.isBar = true then real + wrappedHeight W l else real) ls = [] := by
            by_cases hne : fitPrefix W H (if l.isBar = true then real + wrappedHeight W l else real) ls = []
            · exact hne
            · simp [hne] at h2
          simp [this]
        | some x =>
          rw [hr] at h2
          have hne : fitPrefix W H (if l.isBar = true then real + wrappedHeight W l else real) ls ≠ [] := by
            intro he; simp [he] at h2
          simp only [Option.map_some, hne, if_false, Option.some.injEq] at h2
          simp only [Option.map_some, Option.some.injEq]
          omega

/-- everything fits: nothing is left out -/
theorem fitPrefix_all (W H : Nat) : ∀ (ls : List Line) (real : Nat), real + barRowsOf W ls ≤ H → fitPrefix W H real ls = ls := by
  intro ls
  induction ls with
  | nil => intro real _; rfl
  | cons l ls ih =>
    intro real h
    unfold fitPrefix
    by_cases hb : l.isBar = true
    · have hr : barRowsOf W (l :: ls) = wrappedHeight W l + barRowsOf W ls := by simp [barRowsOf, List.filter_cons, hb]
      have hfit : ¬ (real + wrappedHeight W l > H) := by omega
      simp only [hb, Bool.true_and, decide_eq_true_eq, hfit, if_false, if_true]
      rw [ih _ (by omega)]
    · have hb' : l.isBar = false := by simpa using hb
      have hr : barRowsOf W (l :: ls) = barRowsOf W ls := by simp [barRowsOf, List.filter_cons, hb']
      simp only [hb', Bool.false_and, Bool.false_eq_true, if_false]
      rw [ih _ (by omega)]

/-- something is left out only because the next bar does not fit -/
theorem fitPrefix_maximal (W H : Nat) : ∀ (ls : List Line) (real : Nat), fitPrefix W H real ls ≠ ls →
    ∃ l, (fitPrefix W H real ls ++ [l]) <+: ls ∧ l.isBar = true ∧
      real + barRowsOf W (fitPrefix W H real ls) + wrappedHeight W l > H := by
  intro ls
  induction ls with
  | nil => intro real h; exact absurd rfl h
  | cons l ls ih =>
    intro real h
    unfold fitPrefix at h ⊢
    split
    · rename_i hc
      simp only [Bool.and_eq_true, decide_eq_true_eq] at hc
      exact ⟨l, by simp, hc.1, by simp [barRowsOf]; omega⟩
    · rename_i hc
      have hne : fitPrefix W H (if l.isBar = true then real + wrappedHeight W l else real) ls ≠ ls := by
        intro he; apply h; rw [if_neg hc, he]
      obtain ⟨x, hp, hx, hgt⟩ := ih _ hne
      have hpre : (l :: fitPrefix W H (if l.isBar = true then real + wrappedHeight W l else real) ls) ++ [x] <+: l :: ls := by
        rw [List.cons_append]; exact (List.cons_prefix_cons (a := l) (b := l)).mpr ⟨rfl, hp⟩
      refine ⟨x, hpre, hx, ?_⟩
      by_cases hb : l.isBar = true
      · simp only [hb, if_true] at hgt
        simp only [barRowsOf, List.filter_cons, hb, if_true, List.map_cons, List.sum_cons] at hgt ⊢; omega
      · have hb' : l.isBar = false := by simpa using hb
        simp only [hb', Bool.false_eq_true, if_false] at hgt
        simp only [barRowsOf, List.filter_cons, hb', Bool.false_eq_true, if_false] at hgt ⊢; omega

/-- **C19 (only the leading bars that fit are painted; omitted bars appear as soon as there is room).** For every frame, terminal size
and repair set, `draw_to_term` counts exactly the bar rows of the longest leading part of the frame whose bars fit the terminal
height (`fitPrefix`: text lines are never left out, it ends in front of the first bar whose rows would exceed `H`); this leading part is
the whole frame as soon as the bar rows fit, and when something is left out the next line is a bar that really does not fit. -/
theorem C19_leading_bars_painted (fx : Fixes) (W H : Nat) (ds : DrawState) (n : Nat) :
    let p := paintLoop fx W H ds.lines.length (n == 0) ds.unparked 0 0 ds.lines
    let shown := fitPrefix W H 0 ds.lines
    shown <+: ds.lines ∧ p.2.1 = barRowsOf W shown ∧
    (p.2.2.map (·.1) = if shown = [] then none else some shown.length) ∧
    (barRowsOf W ds.lines ≤ H → shown = ds.lines) ∧
    (shown ≠ ds.lines → ∃ l, (shown ++ [l]) <+: ds.lines ∧ l.isBar = true ∧ barRowsOf W shown + wrappedHeight W l > H) := by
  intro p shown
  obtain ⟨h1, h2⟩ := paintLoop_fitPrefix fx W H ds.lines.length (n == 0) ds.unparked ds.lines 0 0
  refine ⟨fitPrefix_prefix W H ds.lines 0, by simpa using h1, by simpa using h2, fun h => fitPrefix_all W H ds.lines 0 (by omega), fun h => ?_⟩
  obtain ⟨l, hp, hb, hgt⟩ := fitPrefix_maximal W H ds.lines 0 h
  have hgt' : barRowsOf W (fitPrefix W H 0 ds.lines) + wrappedHeight W l > H := by omega
  exact ⟨l, hp, hb, hgt'⟩

/-- **C19 (wrapped rows are accounted for, double-width glyphs included).** On a terminal of `W ≥ 2` columns, a line made of any
mix of zero-, one- and two-column glyphs written from the first column of a row leaves the cursor exactly
`wrapped_height − 1` rows further down (absolute rows: scrolling included): `LineType::wrapped_height`, through
`padded_width`, counts exactly the rows the terminal model uses — the early wrap of a double-width glyph that finds one column
left and the pending wrap in the last column included — so the redraw that moves up by the sum of these heights
reaches the first row of the frame. -/
theorem C19_wrapped_rows_accounted (W : Nat) (hW : 2 ≤ W) (t : Term) (htW : t.W = W) (hc : t.c = 0) (l : Line)
    (hg : ∀ g ∈ l.gs, g.w ≤ 2) :
    (t.writeG l.gs).a + 1 = t.a + wrappedHeight W l := by
  have hat := writeG_at W t.a hW l.gs t 0 0 htW hg (Or.inl ⟨rfl, rfl, hc⟩)
  have htot := padStep_total W l.gs 0 0
  have hfil : l.gs.filter (fun g => decide (g.w > W)) = [] := by
    apply List.filter_eq_nil_iff.mpr
    intro g hgm
    have := hg g hgm
    simp only [decide_eq_true_eq]; omega
  rw [hfil] at htot
  have hpad : l.padded W = (l.gs.foldl (Text.padStep W) (0, 0)).1 := by
    unfold Line.padded Text.padded
    simp [Text.cols] at htot
    unfold Text.cols
    omega
  unfold wrappedHeight
  rw [hpad]
  rcases hat with ⟨h0, ha, _⟩ | ⟨q, r, hr, hcol, ha, _⟩
  · rw [h0, ha]
    have : (0 + W - 1) / W = 0 := Nat.div_eq_of_lt (by omega)
    rw [this]; simp
  · rw [hcol, ha]
    have h1 : q * W + r + 1 + W - 1 = W * (q + 1) + r := by rw [Nat.mul_add, Nat.mul_comm]; omega
    rw [h1, Nat.mul_add_div (by omega : 0 < W), Nat.div_eq_of_lt hr]
    simp only [Nat.add_zero]
    omega

/-- non-vacuity: on 5 columns, `ab日本語` takes two rows (the second ideograph wraps early from the last column) -/
example : wrappedHeight 5 { kind := .bar, gs := [⟨97, 1⟩, ⟨98, 1⟩, ⟨26085, 2⟩, ⟨26412, 2⟩, ⟨35486, 2⟩] } = 2 ∧
    ((Term.init 5 4).writeG [⟨97, 1⟩, ⟨98, 1⟩, ⟨26085, 2⟩, ⟨26412, 2⟩, ⟨35486, 2⟩]).a = 1 := by decide

/-- **A frame after a cut-off frame whose rows were all kept starts on a fresh row** (repair of F33).
When the previous frame was cut off at the terminal height (`unparked`) and nothing is to be erased
(`n = 0`: its rows were handed over as zombie rows), the first thing written after the (empty) clearing
sequence is a line break — the new frame does not continue in the last kept row, so the rows the
`MultiProgress` later erases are exactly the rows it accounts for. -/
theorem C19_fresh_row_after_cutoff (fx : Fixes) (hfp : fx.fpark = true) (ds : DrawState) (W H : Nat) (l : Line) (ls : List Line)
    (hl : ds.lines = l :: ls) (hup : ds.unparked = true) (hmc : ds.moveCursor = false)
    (hfits : ¬ (l.isBar = true ∧ wrappedHeight W l > H)) :
    ∃ rest, (drawToTerm fx ds W H 0).1 = clearOps 0 ++ (TOp.writeLine [] :: TOp.writeStr l.gs :: rest) := by
  unfold drawToTerm
  have hc : (l.isBar && decide (0 + wrappedHeight W l > H)) = false := by
    cases hb : l.isBar with
    | false => simp
    | true =>
      have : ¬ (wrappedHeight W l > H) := fun h => hfits ⟨hb, h⟩
      simp [this]
  simp only [hmc, hl, Bool.false_eq_true, and_false, if_false, Nat.lt_irrefl, Nat.not_lt_zero, paintLoop, hc, hup, hfp,
    beq_self_eq_true, Bool.and_self, ne_eq, not_true_eq_false, if_true, List.replicate_zero, List.append_nil, Nat.sub_self,
    Nat.zero_sub, ite_self, List.nil_append, List.singleton_append, List.cons_append, List.append_assoc]
  exact ⟨_, rfl⟩

/-- … and a frame that is cut off after at least one bar row raises the flag (no filler was written) -/
theorem C19_cutoff_raises_flag (fx : Fixes) (hfp : fx.fpark = true) (ds : DrawState) (W H n : Nat) (written fill : Nat)
    (hp : (paintLoop fx W H ds.lines.length (n == 0) ds.unparked 0 0 ds.lines).2.2 = some (written, fill))
    (hcut : written ≠ ds.lines.length) (hreal : 0 < (paintLoop fx W H ds.lines.length (n == 0) ds.unparked 0 0 ds.lines).2.1) :
    unparkedAfter fx ds W H n = true := by
  unfold unparkedAfter
  simp only [hfp, Bool.not_true, Bool.false_eq_true, if_false, hp]
  have h1 : (written == ds.lines.length) = false := by simpa using hcut
  have h2 : ¬ ((paintLoop fx W H ds.lines.length (n == 0) ds.unparked 0 0 ds.lines).2.1 +
      (if ds.alignment = .bottom ∧ visualLineCount W ds.lines < n then n - visualLineCount W ds.lines else 0) = 0) := by omega
  simp only [h1, Bool.false_or, Bool.not_eq_true', beq_eq_false_iff_ne, ne_eq]
  exact h2

/-- **`LineType::padded_width` as translated from the source** (`tools/gen_padded.py`, regenerated on every run: the body of the
loop over the characters of a line, statement by statement; the code around it is compared as text): the columns the model counts for
a line — the quantity `C19_wrapped_rows_accounted` proves equal to what the terminal does — are the display width plus the padding
the source's loop accumulates, for every line and width. (Modelled, not read: `console::measure_text_width`, the ANSI iterator and
`UnicodeWidthChar::width` as the glyph widths the harness measures with the same crates.) -/
theorem C19_source_padded_width (W : Nat) (l : Line) :
    l.padded W = l.gs.cols + (l.gs.foldl (fun a g => Generated.padStepSrc W a.1 a.2 g.w) (0, 0)).2 := by
  unfold Line.padded Text.padded
  rw [GenBridge.padFoldSrc_eq]

/-- **`LineType::wrapped_height` as read from the source** (the rounding of `padded_width / width` and the bound `usize::max(…, 1)`,
`tools/gen_padded.py`): the rows the model counts for a line are the source's formula on the padded width — which
`C19_source_padded_width` ties to the source's loop. (Modelled, not read: the `f64` quotient of two integers below 2^53 followed by
`ceil` as the exact ceiling; widths from one column upwards.) -/
theorem C19_source_wrapped_height (W : Nat) (l : Line) :
    wrappedHeight W l = Generated.wrappedHeightSrc (l.padded W) W := GenBridge.wrappedHeightSrc_eq W l

/-- non-vacuity: glyphs of 1, 1, 2 columns on three columns — one column of padding, as the source's loop counts it; 1, 2, 1: none -/
example : ([1, 1, 2].map (fun w => ({ cp := 120, w := w } : Glyph))).foldl (fun a g => Generated.padStepSrc 3 a.1 a.2 g.w) (0, 0) = (5, 1) ∧
    ([1, 2, 1].map (fun w => ({ cp := 120, w := w } : Glyph))).foldl (fun a g => Generated.padStepSrc 3 a.1 a.2 g.w) (0, 0) = (4, 0) := by
  constructor <;> decide

end IndicatifModel
