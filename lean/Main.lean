import IndicatifModel.Model.Limiter
import IndicatifModel.Model.World
import IndicatifModel.Model.Multi
import IndicatifModel.Model.Rows
import IndicatifModel.Model.Faults
import IndicatifModel.Model.Position
import IndicatifModel.Model.Template
import IndicatifModel.Model.Locks
import IndicatifModel.Model.StyleBuilder
import IndicatifModel.Model.Format
import IndicatifModel.Model.Tab
import IndicatifModel.Model.Pad
import IndicatifModel.Model.BarGeo
import IndicatifModel.Model.Adaptors
import IndicatifModel.Model.IterWrap
import IndicatifModel.Model.Estimator
import IndicatifModel.Model.Render
import IndicatifModel.Model.KeyValue
/-! Line-protocol driver: one case per input line, one model observation per output line. -/
open IndicatifModel

def parseLFix (s : String) : Limiter.LFix :=
  if s = "FX=current" then Limiter.LFix.current else
  { f6 := (s.drop 3).toString.toList.contains 'n', f7 := (s.drop 3).toString.toList.contains 'o' }

/-- `C05 FX rate t0 t…` → allow/skip per call of the draw limiter -/
def runC05 (toks : List String) : String :=
  match toks with
  | fxs :: rest =>
    match rest.map String.toNat? with
    | some rate :: some t0 :: ts =>
      if rate = 0 then "bad-rate" else
      let times := ts.filterMap id
      if times.length ≠ ts.length then "bad-op" else
      let (bs, _) := Limiter.run (Limiter.drawCfg (parseLFix fxs) rate) { cap := 20, prev := t0 } times
      String.ofList (bs.map (fun b => if b then '1' else '0'))
    | _ => "bad-op"
  | _ => "bad-op"

/-- `C05P FX rate t0 t…` → per `inc` call: did the position gate let a tick through, was a frame painted -/
def runC05P (toks : List String) : String :=
  match toks with
  | fxs :: rest =>
    match rest.map String.toNat? with
    | some rate :: some t0 :: ts =>
      if rate = 0 then "bad-rate" else
      let times := ts.filterMap id
      if times.length ≠ ts.length then "bad-op" else
      let fx := parseLFix fxs
      let (_, _, g, p) := times.foldl (fun (acc : Limiter.St × Limiter.St × List Char × List Char) t =>
        let (gs, ds, g, p) := acc
        let r := Limiter.allow (Limiter.posCfg fx) gs (t - t0)
        if r.1 then
          let d := Limiter.allow (Limiter.drawCfg fx rate) ds t
          (r.2, d.2, g ++ ['1'], p ++ [if d.1 then '1' else '0'])
        else (r.2, ds, g ++ ['0'], p ++ ['0'])) (({ cap := 10, prev := 0 } : Limiter.St), ({ cap := 20, prev := t0 } : Limiter.St), [], [])
      String.ofList g ++ " " ++ String.ofList p
    | _ => "bad-op"
  | _ => "bad-op"

/-- `FX=<letters>`: which repairs the code under test contains (a=F4 b=F23 c=F22 d=F1–F3 e=F26/27) -/
def parseFx (s : String) : Fixes :=
  if s = "FX=current" then Fixes.current else
  let has (c : Char) := (s.drop 3).toString.toList.contains c
  { f4 := has 'a', f23 := has 'b', f22 := has 'c', fzomb := has 'd', fstale := has 'e', f31 := has 'k', fkept := has 'p', fpark := has 'q', fretarget := has 'r', fbottom := has 's', fblank := has 't' }

/-- `cp:w,cp:w,…`, `-` for the empty text -/
def parseText (s : String) : Option Text :=
  if s = "-" then some [] else
  (s.splitOn ",").mapM (fun g => match g.splitOn ":" with
    | [a, b] => do some { cp := (← a.toNat?), w := (← b.toNat?) }
    | _ => none)

def parseFinish : List String → Option Finish
  | ["leave"] => some .andLeave
  | ["clear"] => some .andClear
  | ["abandon"] => some .abandon
  | ["msg", t] => (parseText t).map .withMessage
  | ["abandonmsg", t] => (parseText t).map .abandonWithMessage
  | _ => none

def parseBarOp (s : String) : Option BarOp :=
  match (s.trimAscii.toString.splitOn " ").filter (· ≠ "") with
  | ["adv", n] => n.toNat?.map .adv
  | ["tick"] => some .tick
  | ["inc", n] => n.toNat?.map .inc
  | ["dec", n] => n.toNat?.map .dec
  | ["setpos", n] => n.toNat?.map .setPos
  | ["msg", t] => (parseText t).map .setMsg
  | ["prefix", t] => (parseText t).map .setPrefix
  | ["len", "none"] => some .unsetLen
  | ["len", n] => n.toNat?.map .setLen
  | ["println", t] => (parseText t).map .println
  | "suspend" :: ts => (ts.mapM parseText).map .suspend
  | ["reset"] => some .reset
  | "finish" :: f => (parseFinish f).map .finish
  | ["finishstyle"] => some .finishUsingStyle
  | ["drop"] => some .drop
  | _ => none

def showSnap (s : Snap) : String :=
  s!"{s.r},{s.c} " ++ "|".intercalate (s.rows.map (fun r => ".".intercalate (r.map toString)))

/-- `BAR W H HZ T0 TPL LEN ONFINISH… ; op ; op …` → the screen at every flush -/
def runBAR (rest : String) : String :=
  match rest.splitOn ";" with
  | hdr :: ops =>
    match (hdr.trimAscii.toString.splitOn " ").filter (· ≠ "") with
    | fxs :: w :: h :: hz :: t0 :: tpl :: len :: fin =>
      match w.toNat?, h.toNat?, hz.toNat?, t0.toNat?, tpl.toNat?, parseFinish fin, ops.mapM parseBarOp with
      | some W, some H, some HZ, some T0, some TPL, some onFinish, some bops =>
        let fx := parseFx fxs
        let lim := if HZ = 0 then none else
          some (Limiter.drawCfg Limiter.LFix.current HZ, ({ cap := 20, prev := T0 } : Limiter.St))
        let bar : Bar := { len := if len = "none" then none else len.toNat?, tpl := templates.getD TPL [],
                           onFinish := onFinish, start := T0, target := some { W := W, H := H, limiter := lim, fx := fx } }
        let w := (World.mk bar (Term.init W H) T0 [] 0).run bops
        s!"calls={w.calls} pos={w.bar.pos} fin={w.bar.finished} " ++ " ; ".intercalate (w.snaps.map showSnap)
      | _, _, _, _, _, _, _ => "bad-op"
    | _ => "bad-op"
  | _ => "bad-op"

def parseMOp (s : String) : Option MOp :=
  match (s.trimAscii.toString.splitOn " ").filter (· ≠ "") with
  | ["adv", n] => n.toNat?.map .adv
  | "add" :: loc :: arg :: len :: tpl :: pfx :: fin => do
      let f ← parseFinish fin
      let p ← parseText pfx
      some (.add (← loc.toNat?) (← arg.toNat?) (if len = "none" then none else len.toNat?) (← tpl.toNat?) f p)
  | ["remove", k] => k.toNat?.map .remove
  | ["mpprintln", t] => (parseText t).map .mpPrintln
  | ["mpclear"] => some .mpClear
  | ["retarget"] => some .retarget
  | "mpsuspend" :: ts => (ts.mapM parseText).map .mpSuspend
  | ["align", a] => some (.align (a = "bottom"))
  | "bar" :: k :: rest => do
      let op ← parseBarOp (" ".intercalate rest)
      some (.bar (← k.toNat?) op)
  | _ => none

/-- `MULTI W H HZ T0 ; op ; op …` → the screen at every flush -/
def runMULTI (rest : String) : String :=
  match rest.splitOn ";" with
  | hdr :: ops =>
    match (hdr.trimAscii.toString.splitOn " ").filter (· ≠ "") with
    | [fxs, w, h, hz, t0] =>
      match w.toNat?, h.toNat?, hz.toNat?, t0.toNat?, ops.mapM parseMOp with
      | some W, some H, some HZ, some T0, some mops =>
        let fx := parseFx fxs
        let lim := if HZ = 0 then none else
          some (Limiter.drawCfg Limiter.LFix.current HZ, ({ cap := 20, prev := T0 } : Limiter.St))
        let w0 : MWorld := { multi := { target := { W := W, H := H, limiter := lim, fx := fx } }, term := Term.init W H, now := T0 }
        let w := w0.run mops
        s!"calls={w.calls} panicked={w.panicked} " ++ " ; ".intercalate (w.snaps.map showSnap)
      | _, _, _, _, _ => "bad-op"
    | _ => "bad-op"
  | _ => "bad-op"

/-- `MULTIF FX K STICKY UNWRAP W H HZ T0 ; op ; op …` → per operation the reported `io::Result` and whether a
terminal call failed during it, then the totals (fault model of C18) -/
def runMULTIF (rest : String) : String :=
  match rest.splitOn ";" with
  | hdr :: ops =>
    match (hdr.trimAscii.toString.splitOn " ").filter (· ≠ "") with
    | [fxs, k, sticky, unwrap, w, h, hz, t0] =>
      match k.toNat?, w.toNat?, h.toNat?, hz.toNat?, t0.toNat?, ops.mapM parseMOp with
      | some K, some W, some H, some HZ, some T0, some mops =>
        let fx := parseFx fxs
        let lim := if HZ = 0 then none else
          some (Limiter.drawCfg Limiter.LFix.current HZ, ({ cap := 20, prev := T0 } : Limiter.St))
        let fs0 : Faults.FS := { fault := some (K, sticky == "1") }
        let m0 : Multi := { target := { W := W, H := H, limiter := lim, fx := fx } }
        let w0 : Faults.FW := { multi := m0, now := T0, fs := fs0, unwrapSites := unwrap == "1" }
        let (w, outs) := mops.foldl (fun (acc : Faults.FW × List String) op =>
          let r := acc.1.step op
          let fd := decide (r.1.fs.failed > acc.1.fs.failed)
          let res := match r.2 with | none => "-" | some true => "ok" | some false => "err"
          let pn := if r.1.panicked then "panic" else "ok"
          let fds := if fd then "1" else "0"
          (r.1, acc.2 ++ [res ++ ":" ++ fds ++ ":" ++ pn])) (w0, [])
        let log := w.bars.map (fun mb => toString mb.b.pos ++ "/" ++ (match mb.b.len with | some l => toString l | none => "none") ++ "/" ++ toString mb.b.finished)
        " ".intercalate outs ++ s!" calls={w.fs.calls} failed={w.fs.failed} log=" ++ ",".intercalate log
      | _, _, _, _, _, _ => "bad-op"
    | _ => "bad-op"
  | _ => "bad-op"

/-- `ROWS W H HZ T0 ; op ; op …` → the row-level model's screen after every painted draw -/
def runROWS (rest : String) : String :=
  match rest.splitOn ";" with
  | hdr :: ops =>
    match (hdr.trimAscii.toString.splitOn " ").filter (· ≠ "") with
    | [_, ws, _, hz, t0] =>
      match hz.toNat?, t0.toNat?, ops.mapM parseMOp, ws.toNat? with
      | some HZ, some T0, some mops, some W =>
        let lim := if HZ = 0 then none else
          some (Limiter.drawCfg Limiter.LFix.current HZ, ({ cap := 20, prev := T0 } : Limiter.St))
        let w := Rows.run { limiter := lim, now := T0, wrapW := W } mops
        let showRow (r : Rows.Row) : String :=
          ".".intercalate ((((r.filter (·.w ≠ 0)).map (·.cp)).reverse.dropWhile (· == 32)).reverse.map toString)
        let showScr (rows : List Rows.Row) : String :=
          "|".intercalate (((rows.map showRow).reverse.dropWhile (· == "")).reverse)
        s!"panicked={w.panicked} " ++ " ; ".intercalate (w.frames.map showScr)
      | _, _, _, _ => "bad-op"
    | _ => "bad-op"
  | _ => "bad-op"

/-- `C07 len|none ; op ; op …` → `pos,len,finished` after every op -/
def runC07 (rest : String) : String :=
  match rest.splitOn ";" with
  | hdr :: ops =>
    let htoks := (hdr.trimAscii.toString.splitOn " ").filter (· ≠ "")
    let len0 : Option Nat := (htoks.getD 0 "none").toNat?
    let moves : Bool := htoks.getD 1 "m" != "k"
    let parse (s : String) : Option Position.Op :=
      match (s.trimAscii.toString.splitOn " ").filter (· ≠ "") with
      | ["inc", n] => n.toNat?.map .inc | ["dec", n] => n.toNat?.map .dec | ["setpos", n] => n.toNat?.map .setPos
      | ["reset"] => some .reset | ["setlen", n] => n.toNat?.map .setLen | ["inclen", n] => n.toNat?.map .incLen
      | ["declen", n] => n.toNat?.map .decLen | ["unsetlen"] => some .unsetLen | ["finish"] => some .finish
      | ["abandon"] => some .abandon | ["resetelapsed"] => some .resetElapsed | ["reseteta"] => some .resetEta
      | ["finishstyle"] => some .finishStyle | _ => none
    match ops.mapM parse with
    | none => "bad-op"
    | some os =>
      let (_, outs) := os.foldl (fun (acc : Position.St × List String) o =>
        let s := Position.step acc.1 o
        (s, acc.2 ++ [s!"{s.pos},{match s.len with | some l => toString l | none => "none"},{s.finished}"])) (({ len := len0, moves := moves } : Position.St), [])
      " ".intercalate outs
  | _ => "bad-op"

def pstateName : Template.PState → String
  | .literal => "Literal" | .maybeOpen => "MaybeOpen" | .doubleClose => "DoubleClose" | .key => "Key"
  | .align => "Align" | .width => "Width" | .firstStyle => "FirstStyle" | .altStyle => "AltStyle"

/-- `TPL FX=<letters> cp,cp,…` → `ok` | `err State cp` | `panic`  (f = F9 repaired, g = F10 repaired) -/
def runTPL (toks : List String) : String :=
  match toks with
  | [fxs, cps] =>
    let fx : Template.PFix := if fxs = "FX=current" then Template.PFix.current else
      { f9 := (fxs.drop 3).toString.toList.contains 'f', f10 := (fxs.drop 3).toString.toList.contains 'g' }
    let cs := if cps = "-" then [] else (cps.splitOn ",").filterMap (fun t => t.toNat?.map Char.ofNat)
    match Template.parse fx cs with
    | .ok _ => "ok"
    | .err st c => s!"err {pstateName st} {c.toNat}"
    | .panic => "panic"
  | _ => "bad-op"

def className : Locks.LockClass → String
  | .T => "T" | .J => "J" | .S => "S" | .M => "M" | .C => "C"
def lactName : Locks.LAct → String
  | .acq c => "acq" ++ className c | .rel c => "rel" ++ className c
  | .racq c => "racq" ++ className c | .rrel c => "rrel" ++ className c
  | .notify => "notify" | .spawn => "spawn" | .join => "join"
def callOfName : String → Option Locks.Call
  | "tick" => some .tick | "inc" => some .inc | "set_position" => some .setPosition | "set_message" => some .setMessage
  | "set_prefix" => some .setPrefix | "set_length" => some .setLength | "inc_length" => some .incLength | "unset_length" => some .unsetLength
  | "println" => some .println | "suspend" => some .suspend | "reset" => some .reset | "reset_eta" => some .resetEta | "update" => some .update
  | "finish" => some .finish | "finish_and_clear" => some .finishAndClear | "abandon" => some .abandon | "finish_using_style" => some .finishUsingStyle
  | "position" => some .position | "length" => some .length | "message" => some .message | "is_finished" => some .isFinished | "is_hidden" => some .isHidden
  | "eta" => some .eta | "elapsed" => some .elapsed | "style" => some .style | "set_style" => some .setStyle | "set_tab_width" => some .setTabWidth
  | "force_draw" => some .forceDraw | "enable_steady_tick" => some .enableSteadyTick | "disable_steady_tick" => some .disableSteadyTick
  | "clone_drop" => some .cloneDrop | "drop_last" => some .dropLast | "mp_println" => some .mpPrintln | "mp_clear" => some .mpClear
  | "mp_suspend" => some .mpSuspend | "mp_remove" => some .mpRemove | "mp_add" => some .mpAdd | "mp_insert_before" => some .mpInsertBefore
  | "mp_set_alignment" => some .mpSetAlignment | "mp_is_hidden" => some .mpIsHidden | _ => none

/-- `LOCKS FX=<letters> call single|multi ticker|noticker` → the call's lock program (h = F8 repaired) -/
def runLOCKS (toks : List String) : String :=
  match toks with
  | [fxs, call, cfg, tk] =>
    if call = "ticker_loop" then
      -- one iteration of the ticker thread; the condvar wait happens while the stop flag is held
      " ".intercalate ((Locks.tickerIteration (cfg = "multi")).flatMap (fun a =>
        if a = Locks.LAct.acq Locks.LockClass.C then [lactName a, "wait"] else [lactName a]))
    else
    match callOfName call with
    | some c => " ".intercalate ((Locks.program (if fxs = "FX=current" then Locks.currentF8 else fxs.toList.contains 'h') c (cfg = "multi") (tk = "ticker")).map lactName)
    | none => "bad-op"
  | _ => "bad-op"

/-- `STYLE FX=<letters> ; tc n ; ts n ; pc w,w,… ` → `rejected` | `accepted ok` | `accepted panic` (i = F12, j = F13 repaired) -/
def runSTYLE (rest : String) : String :=
  match rest.splitOn ";" with
  | hdr :: ops =>
    let fx : StyleBuilder.SFix := if hdr.trimAscii.toString = "FX=current" then StyleBuilder.SFix.current else
      { f12 := hdr.toList.contains 'i', f13 := hdr.toList.contains 'j' }
    let parse (s : String) : Option StyleBuilder.BuildOp :=
      match (s.trimAscii.toString.splitOn " ").filter (· ≠ "") with
      | ["tc", n] => n.toNat?.map .tickChars
      | ["ts", n] => n.toNat?.map .tickStrings
      | ["pc", ws] => if ws = "-" then some (.progressChars []) else ((ws.splitOn ",").mapM String.toNat?).map .progressChars
      | _ => none
    match ops.mapM parse with
    | none => "bad-op"
    | some bops =>
      match StyleBuilder.buildAll fx {} bops with
      | none => "rejected"
      | some s => if StyleBuilder.renderOk s 3 20 false && StyleBuilder.renderOk s 0 20 true then "accepted ok" else "accepted panic"
  | _ => "bad-op"

/-- `FMT count n` | `FMT fdur secs` | `FMT hdur ns` | `FMT hdura ns` -/
def runFMT (toks : List String) : String :=
  match toks with
  | ["count", n] => match n.toNat? with | some k => String.ofList (Format.humanCount k) | none => "bad-op"
  | ["fdur", n] => match n.toNat? with | some k => String.ofList (Format.formattedDuration k) | none => "bad-op"
  | ["hdur", n] => match n.toNat? with | some k => String.ofList (Format.humanDuration k false) | none => "bad-op"
  | ["hdura", n] => match n.toNat? with | some k => String.ofList (Format.humanDuration k true) | none => "bad-op"
  | ["fcount", bits, prec] => match bits.toNat?, prec.toNat? with
    | some b, some p => String.ofList (Format.humanFloatCount b p) | _, _ => "bad-op"
  | ["bytes", kind, n] => match n.toNat? with
    | some k => String.ofList (Format.humanBytes k (kind != "decimal")) | none => "bad-op"
  | _ => "bad-op"

/-- `TAB ; op ; op …` with `tw n`, `style`, `msg cps`, `prefix cps`; the style's template is
`a<TAB>b {prefix}|{msg}|{k}` with a custom key writing `x<TAB>y`. Output: the rendered line and the two getters. -/
def runTAB (rest : String) : String :=
  let cpsOf (s : String) : List Nat := if s = "-" then [] else (s.splitOn ",").filterMap String.toNat?
  let parse (s : String) : Option Tab.Op :=
    match (s.trimAscii.toString.splitOn " ").filter (· ≠ "") with
    | ["tw", n] => n.toNat?.map .setTabWidth
    | ["style"] => some (.setStyle [[97, 9, 98, 32], [124], [124]] [120, 9, 121])
    | ["style", k] => some (.setStyle [[97, 9, 98, 32], [124], [124]]
        (match k with | "1" => [97, 9, 98, 9, 99] | "2" => [9, 9] | "3" => "no tab".toList.map Char.toNat | _ => [120, 9, 121]))
    | ["msg", t] => some (.setMessage (cpsOf t))
    | ["prefix", t] => some (.setPrefix (cpsOf t))
    | _ => none
  match ((rest.splitOn ";").drop 1).mapM parse with
  | none => "bad-op"
  | some ops =>
    let b := (ops ++ [Tab.Op.draw]).foldl Tab.step {}
    let showL (l : List Nat) := ".".intercalate (l.map toString)
    let line := match b.style.literals.map (·.expanded.1) with
      | [l0, l1, l2] => l0 ++ b.pfx.expanded.1 ++ l1 ++ b.msg.expanded.1 ++ l2 ++ Tab.expand b.style.customKey b.style.tabWidth
      | _ => []
    s!"line={showL line} msg={showL b.msg.expanded.1} prefix={showL b.pfx.expanded.1}"

/-- `PAD l|c|r 0|1 width cp:w:b,…` → code points of the rendered field -/
def runPAD (toks : List String) : String :=
  match toks with
  | [al, tr, w, gs] =>
    let align : Pad.Align := if al = "l" then .left else if al = "c" then .center else .right
    let glyphs : Option (List Pad.G) := if gs = "-" then some [] else
      (gs.splitOn ",").mapM (fun g => match g.splitOn ":" with
        | [a, b, c] => do some { cp := (← a.toNat?), w := (← b.toNat?), b := (← c.toNat?) }
        | _ => none)
    match w.toNat?, glyphs with
    | some W, some g => ".".intercalate ((Pad.pad g W align (tr = "1")).map (fun x => toString x.cp))
    | _, _ => "bad-op"
  | _ => "bad-op"

/-- `f64 as u64` / `as u32` of Rust: truncation, saturating, NaN ↦ 0 -/
def secsToDurationNs (s : Float) : Nat :=
  let secs := s.floor.toUInt64.toNat          -- `s ≥ 0` wherever this is used
  let nanos := ((s - s.floor) * 1000000000.0).toUInt32.toNat
  secs * 1000000000 + nanos

def perSecE (w : Estimator.EW Float) (now : Nat) : Float :=
  if w.finished then Float.ofNat w.pos / (Float.ofNat ((now - w.started) / 1000000000) + Float.ofNat ((now - w.started) % 1000000000) / 1000000000.0)
  else Estimator.stepsPerSecond Estimator.floatOps w.est now

def etaE (w : Estimator.EW Float) (now : Nat) : Nat :=
  Estimator.etaOf Estimator.floatOps (fun x => x == 0.0) secsToDurationNs w now

/-- `EST t0 len|none ; adv n ; upd p ; inc d ; setpos p ; reseteta ; resetelapsed ; reset ; finish ; len l|none ; q ; eta ; dur ; el` -/
def runEstimator (rest : String) : String :=
  match rest.splitOn ";" with
  | hdr :: ops =>
    match (hdr.trimAscii.toString.splitOn " ").filter (· ≠ "") with
    | [t0s, lens] =>
      match t0s.toNat? with
      | none => "bad-op"
      | some t0 =>
        let o := Estimator.floatOps
        let w0 : Estimator.EW Float := { est := Estimator.new o t0, started := t0, gateStart := t0, len := lens.toNat? }
        let (_, _, outs) := ops.foldl (fun (acc : Estimator.EW Float × Nat × List String) (s : String) =>
          let (w, now, outs) := acc
          match (s.trimAscii.toString.splitOn " ").filter (· ≠ "") with
          | ["adv", n] => (w, now + n.toNat!, outs)
          | ["upd", p] => (Estimator.step o w now (.upd p.toNat!), now, outs)
          | ["inc", d] => (Estimator.step o w now (.inc d.toNat!), now, outs)
          | ["setpos", p] => (Estimator.step o w now (.setPos p.toNat!), now, outs)
          | ["reseteta"] => (Estimator.step o w now .resetEta, now, outs)
          | ["resetelapsed"] => (Estimator.step o w now .resetElapsed, now, outs)
          | ["reset"] => (Estimator.step o w now .reset, now, outs)
          | ["finish"] => (Estimator.step o w now .finish, now, outs)
          | ["len", l] => (Estimator.step o w now (.setLen l.toNat?), now, outs)
          | ["withelapsed", n] => ({ w with started := w.started - n.toNat! }, now, outs)   -- `with_elapsed`: only the start of the clock moves
          | ["q"] => (w, now, outs ++ [toString (perSecE w now).toBits])
          | ["eta"] => (w, now, outs ++ [toString (etaE w now)])
          | ["dur"] => (w, now, outs ++ [toString (Estimator.durationOf Estimator.floatOps (fun x => x == 0.0) secsToDurationNs w now)])
          | ["el"] => (w, now, outs ++ [toString (Estimator.elapsedOf w now)])
          | _ => (w, now, outs ++ ["bad-op"])) (w0, t0, [])
        " ".intercalate outs
    | _ => "bad-op"
  | _ => "bad-op"

def runBARGEO (args : List String) : String :=
  match args with
  | [w, cw, n, pos, len] =>
    match w.toNat?, cw.toNat?, n.toNat?, pos.toNat? with
    | some w, some cw, some n, some pos =>
      let len : Option (Option Nat) := if len = "none" then some none else len.toNat?.map some
      match len with
      | some len =>
        if cw = 0 then "bad-op" else
        let b := BarGeo.formatBar BarGeo.f32 (BarGeo.fraction BarGeo.f32 pos len) w cw n
        " ".intercalate ((b.cells n).map toString)
      | none => "bad-op"
    | _, _, _, _ => "bad-op"
  | _ => "bad-op"

def parseEv (toks : List String) : Option Adaptors.Ev :=
  let res : List String → Option Adaptors.Res
    | ["ok", n] => n.toNat?.map .ok | ["ok"] => some (.ok 0) | ["err"] => some .err | ["pending"] => some .pending | _ => none
  match toks with
  | "t" :: r => (res r).map .transfer
  | ["rx", n, st] => match n.toNat?, res [st] with | some n, some r => some (.readExact n r) | _, _ => none
  | ["pr", k, st] => match k.toNat?, res [st] with | some k, some r => some (.pollRead k r) | _, _ => none
  | ["nc"] => some .noCount
  | ["co", k] => k.toNat?.map .consume
  | ["ac", k] => k.toNat?.map .aconsume
  | "sk" :: r => (res r).map .seek
  | "pf" :: r => (res r).map .pollFillBuf
  | "pc" :: r => (res r).map .pollComplete
  | _ => none

def runADAPT (rest : String) : String :=
  match rest.splitOn " ; " with
  | hdr :: evs =>
    match (hdr.trimAscii.toString.splitOn " ").filter (· ≠ "") with
    | [fx, start] =>
      let has (c : Char) := fx.toList.contains c
      let afx : Adaptors.AFix := if fx = "FX=current" then Adaptors.AFix.current else { f16 := has 'l', f28 := has 'm' }
      match start.toNat?, (evs.filter (fun e => e.trimAscii.toString ≠ "")).mapM (fun e => parseEv ((e.trimAscii.toString.splitOn " ").filter (· ≠ ""))) with
      | some p, some es => " ".intercalate ((Adaptors.run afx p es).map toString)
      | _, _ => "bad-op"
    | _ => "bad-op"
  | _ => "bad-op"

def parseScript (t : String) : Option (List (Option Nat)) :=
  if t = "-" then some [] else (t.splitOn ",").mapM (fun x => if x = "_" then some none else x.toNat?.map some)

/-- `ITERW <len|none> <moves 0|1> <pos0> <front script> <back script> <calls n,b,s,...>` -/
def runITERW (args : List String) : String :=
  match args with
  | [len, moves, pos0, front, back, calls] =>
    let len : Option (Option Nat) := if len = "none" then some none else len.toNat?.map some
    let cs : Option (List IterWrap.Call) := if calls = "-" then some [] else
      (calls.splitOn ",").mapM (fun c => if c = "n" then some .next else if c = "b" then some .nextBack else if c = "s" then some .sizeHint else none)
    match len, pos0.toNat?, parseScript front, parseScript back, cs with
    | some len, some p, some f, some b, some cs =>
      let st : Position.St := { pos := p, len := len, finished := false, moves := moves = "1" }
      " ".intercalate ((IterWrap.trace (f, b) st cs).map (fun (a, s) =>
        (match a with
         | .item (some v) => s!"some:{v}"
         | .item none => "none"
         | .hint lo hi => s!"hint:{lo}:{match hi with | some h => toString h | none => "none"}") ++ s!"@{s.pos}:{if s.finished then 1 else 0}"))
    | _, _, _, _, _ => "bad-op"
  | _ => "bad-op"

/-- `ITERS <len|none> <moves 0|1> <pos0> <script: v | _ (end) | P (pending), comma separated> <number of polls>` -/
def runITERS (args : List String) : String :=
  match args with
  | [len, moves, pos0, script, n] =>
    let len : Option (Option Nat) := if len = "none" then some none else len.toNat?.map some
    let sc : Option (List (Option (Option Nat))) := if script = "-" then some [] else
      (script.splitOn ",").mapM (fun x => if x = "P" then some none else if x = "_" then some (some none) else x.toNat?.map (fun v => some (some v)))
    match len, pos0.toNat?, sc, n.toNat? with
    | some len, some p, some sc, some n =>
      let st : Position.St := { pos := p, len := len, finished := false, moves := moves = "1" }
      " ".intercalate ((IterWrap.tracePolls sc st n).map (fun (a, s) =>
        (match a with
         | none => "pending"
         | some (some v) => s!"some:{v}"
         | some none => "none") ++ s!"@{s.pos}:{if s.finished then 1 else 0}"))
    | _, _, _, _ => "bad-op"
  | _ => "bad-op"

/-- `RENDER W tab tpl=<cps> msg=<cps> prefix=<cps> pos=<n> len=<n> foo=<cps> fill=<cp> cw=<cp:w,…>` (texts as code
points separated by commas, `-` = empty) → the lines `format_state` produces, for the keys msg, prefix, pos, len, bar
(all progress characters `fill`), the custom key `foo`, the two wide keys, and unknown keys -/
def runRENDER (toks : List String) : String :=
  let kv (k : String) : Option String := (toks.find? (fun t => t.startsWith (k ++ "="))).map (fun t => (t.drop (k.length + 1)).toString)
  let cpsOf (v : String) : List Nat := if v = "-" then [] else (v.splitOn ",").filterMap String.toNat?
  match toks with
  | w :: tab :: _ =>
    match w.toNat?, tab.toNat?, kv "tpl", kv "msg", kv "prefix", (kv "pos").bind String.toNat?, (kv "len").bind String.toNat?, kv "foo", (kv "fill").bind String.toNat?, kv "cw" with
    | some W, some tabw, some tpl, some msg, some pfx, some pos, some len, some foo, some fill, some cwv =>
      let table : List (Nat × Nat) := if cwv = "-" then [] else (cwv.splitOn ",").filterMap (fun t => match t.splitOn ":" with
        | [a, b] => do some ((← a.toNat?), (← b.toNat?))
        | _ => none)
      let cw (cp : Nat) : Nat := match table.find? (fun e => e.1 = cp) with
        | some e => e.2
        | none => 1
      let g (cp : Nat) : Pad.G := { cp := cp, w := cw cp, b := Render.utf8Len cp }
      let text (cps : List Nat) : List Pad.G := cps.flatMap (fun cp => if cp = 9 then Pad.spaces tabw else [g cp])
      let digits (n : Nat) : List Pad.G := (toString n).toList.map (fun c => g c.toNat)
      let env : Render.Env := {
        W := W, tab := tabw, cw := cw,
        custom := fun k => if k = "foo".toList then some (text (cpsOf foo)) else none,
        builtin := fun k width =>
          if k = "msg".toList then some (text (cpsOf msg))
          else if k = "prefix".toList then some (text (cpsOf pfx))
          else if k = "pos".toList then some (digits pos)
          else if k = "len".toList then some (digits len)
          else if k = "bar".toList then some (List.replicate (width.getD 20) (g fill))
          else none,
        msg := text (cpsOf msg),
        bar := fun n => List.replicate n (g fill) }
      match Template.parse Template.PFix.current ((cpsOf tpl).map Char.ofNat) with
      | .ok parts =>
        let lines := Render.formatState env parts
        s!"n={lines.length} " ++ "|".intercalate (lines.map (fun l => if l = [] then "-" else ".".intercalate (l.map (fun x => toString x.cp))))
      | .err _ _ => "parse-error"
      | .panic => "parse-panic"
    | _, _, _, _, _, _, _, _, _, _ => "bad-op"
  | _ => "bad-op"

/-- `RENDERK W tab tpl=<cps> pos=<n> len=<n|none> elapsed=<ns> eta=<ns> duration=<ns> persec=<f64 bits> msg=<cps> prefix=<cps>
tick=<cps> chars=<cps;cps;…> cwid=<n> cw=<cp:w,…>` → the lines of a frame, every documented key rendered from the getter
values through the *documented* arm table (`Model/KeyDoc.lean`) -/
def runRENDERK (toks : List String) : String :=
  let kv (k : String) : Option String := (toks.find? (fun t => t.startsWith (k ++ "="))).map (fun t => (t.drop (k.length + 1)).toString)
  let cpsOf (v : String) : List Nat := if v = "-" then [] else (v.splitOn ",").filterMap String.toNat?
  let chars (v : String) : List Char := (cpsOf v).map Char.ofNat
  let nat (k : String) : Option Nat := (kv k).bind String.toNat?
  match toks with
  | w :: tab :: _ =>
    match w.toNat?, tab.toNat?, kv "tpl", nat "pos", kv "len", nat "elapsed", nat "eta", nat "duration", nat "persec" with
    | some W, some tabw, some tpl, some pos, some lenS, some elapsed, some eta, some duration, some persec =>
      match kv "msg", kv "prefix", kv "tick", kv "chars", nat "cwid", kv "cw" with
      | some msg, some pfx, some tick, some pcs, some cwid, some cwv =>
        let table : List (Nat × Nat) := if cwv = "-" then [] else (cwv.splitOn ",").filterMap (fun t => match t.splitOn ":" with
          | [a, b] => do some ((← a.toNat?), (← b.toNat?))
          | _ => none)
        let cw (cp : Nat) : Nat := match table.find? (fun e => e.1 = cp) with
          | some e => e.2
          | none => 1
        let lenV : Option Nat := if lenS = "none" then none else lenS.toNat?
        let pchars : List (List Char) := (pcs.splitOn ";").map chars
        let v : KeyValue.Vals := KeyValue.Vals.mk pos lenV elapsed eta duration persec (chars msg) (chars pfx) (chars tick) pchars cwid
        let env := KeyValue.envOf Generated.documentedArms v W tabw cw (fun _ => none)
        match Template.parse Template.PFix.current (chars tpl) with
        | .ok parts =>
          let lines := Render.formatState env parts
          s!"n={lines.length} " ++ "|".intercalate (lines.map (fun l => if l = [] then "-" else ".".intercalate (l.map (fun x => toString x.cp))))
        | .err _ _ => "parse-error"
        | .panic => "parse-panic"
      | _, _, _, _, _, _ => "bad-op"
    | _, _, _, _, _, _, _, _, _ => "bad-op"
  | _ => "bad-op"

def handle (line : String) : String :=
  match line.trimAscii.toString.splitOn " " with
  | "C05" :: rest => runC05 rest
  | "C05P" :: rest => runC05P rest
  | "TPL" :: rest => runTPL rest
  | "EST" :: _ => runEstimator ((line.trimAscii.toString.drop 3).toString)
  | "PAD" :: rest => runPAD rest
  | "RENDER" :: rest => runRENDER rest
  | "RENDERK" :: rest => runRENDERK rest
  | "ADAPT" :: _ => runADAPT ((line.trimAscii.toString.drop 6).toString)
  | "NOMODEL" :: _ => ""
  | "BARGEO" :: rest => runBARGEO rest
  | "ITERW" :: rest => runITERW rest
  | "ITERS" :: rest => runITERS rest
  | "TAB" :: _ => runTAB ((line.trimAscii.toString.drop 3).toString)
  | "FMT" :: rest => runFMT rest
  | "STYLE" :: _ => runSTYLE ((line.trimAscii.toString.drop 6).toString)
  | "LOCKS" :: rest => runLOCKS rest
  | "C07" :: _ => runC07 ((line.trimAscii.toString.drop 4).toString)
  | "BAR" :: _ => runBAR ((line.trimAscii.toString.drop 4).toString)
  | "MULTI" :: _ => runMULTI ((line.trimAscii.toString.drop 6).toString)
  | "MULTIF" :: _ => runMULTIF ((line.trimAscii.toString.drop 7).toString)
  | "ROWS" :: _ => runROWS ((line.trimAscii.toString.drop 5).toString)
  | _ => "bad-op"

partial def loop (h : IO.FS.Stream) : IO Unit := do
  let line ← h.getLine
  if line.isEmpty then return ()
  IO.println (handle line)
  loop h

def main : IO Unit := do loop (← IO.getStdin)
