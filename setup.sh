#!/bin/bash
# Build the framework from files on disk only (offline): all Lean modules (theorems are kernel-checked here and
# again, incrementally, by every check), the compiled model driver, and the Rust correspondence harness against /repo.
set -euo pipefail
cd "$(dirname "$0")"
export CARGO_NET_OFFLINE=true
REPO="${VERIF_REPO:-/repo}"
mkdir -p .work evidence replays
VERIF_REPO="$REPO" tools/regen.sh
( cd lean
  mods=$(find IndicatifModel -name '*.lean' | sed 's#/#.#g; s#\.lean$##' | tr '\n' ' ')
  lake build $mods driver )
sed "s#@REPO@#$REPO#" harness/Cargo.toml.in > harness/Cargo.toml
[ -f harness/Cargo.lock ] || cp "$REPO/Cargo.lock" harness/Cargo.lock 2>/dev/null || cp harness/Cargo.lock.in harness/Cargo.lock
( cd harness && cargo build --offline --release --quiet )
# the variant of the harness with the crate feature improved_unicode (stream C14U)
( cd harness && cargo build --offline --quiet --release --features improved --target-dir target-improved )
echo "setup ok"
