#!/usr/bin/env python3
"""prints a markdown table of what each check consisted of on its last run (from evidence/*.json): theorems audited, regenerated
files, streams with cases / model differences / oracle failures. Used to refresh DESIGN.md section 13.4."""
import glob, json, os, sys
sys.path.insert(0, os.path.dirname(os.path.abspath(__file__)))
from props_table import PROPS
root = os.path.dirname(os.path.dirname(os.path.abspath(__file__)))
print("| Prop. | Theorems audited | Regenerated from the sources | Streams: cases (model differences, oracle failures) | wall |")
print("|---|---|---|---|---|")
for f in sorted(glob.glob(os.path.join(root, "evidence", "C*.json"))):
    e = json.load(open(f)); c = e["coverage"]; pid = e["property_id"]
    gens = ", ".join(os.path.basename(t) for _, t in PROPS[pid].get("gen", [])) or "—"
    if any("rs2lean" in s for s, _ in PROPS[pid].get("gen", [])):
        gens = gens.replace("Funs.lean", "Funs.lean (+ EstimatorFuns, BarGeoFuns)")
    streams = "; ".join(f"{s['stream']}: {s['evaluations']} ({s['model_disagreements']}, {s['oracle_failures']})" for s in c["streams"])
    print(f"| {pid} | {c['discharged']} of {c['obligations']} | {gens} | {streams} | {e['wall_s']:.0f} s |")
