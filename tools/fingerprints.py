#!/usr/bin/env python3
"""Source fingerprints: one hash per Rust function (comments and whitespace removed) of the crate under test.

  fingerprints.py write  <repo> <out.json>      record the current fingerprints (done by hand after the model was re-validated)
  fingerprints.py diff   <repo> <in.json> <file> [<file> ...]   print the functions of the given source files whose body differs
                                                                from the record (changed / added / removed), one per line

`./check` calls `diff` for the files a property is anchored in. A difference is NOT a violation: it tells the check that the
hand-written model of that code may be stale, and the check answers by running the property's correspondence streams with more
seeds on this run (and records the functions in the evidence)."""
import hashlib, json, os, re, sys


def functions(src):
    """{key: hash} for every `fn` with a body; key = enclosing impl/trait header (if any) + fn name + occurrence index"""
    src = re.sub(r"//[^\n]*", "", src)
    src = re.sub(r"/\*.*?\*/", "", src, flags=re.S)
    # blank out string literals' braces so that brace matching is not confused
    def strmask(m):
        return '"' + re.sub(r"[{}]", "_", m.group(1)) + '"'
    masked = re.sub(r'"((?:[^"\\]|\\.)*)"', strmask, src)
    masked = re.sub(r"'[{}]'", "'_'", masked)
    out, seen = {}, {}
    heads = [(m.start(), re.sub(r"\s+", " ", m.group(1)).strip()) for m in re.finditer(r"^\s*((?:unsafe\s+)?(?:impl|trait)\b[^{;]*)\{", masked, flags=re.M)]
    spans = []
    for pos, head in heads:
        i = masked.index("{", pos)
        depth, j = 1, i + 1
        while depth and j < len(masked):
            depth += {"{": 1, "}": -1}.get(masked[j], 0)
            j += 1
        spans.append((i, j, head))
    for m in re.finditer(r"\bfn\s+(\w+)", masked):
        k = m.end()
        # find the body: first `{` before a `;` at depth 0 of parentheses / angle brackets is good enough for this crate
        depth_par, j = 0, k
        while j < len(masked):
            c = masked[j]
            if c in "([":
                depth_par += 1
            elif c in ")]":
                depth_par -= 1
            elif c == ";" and depth_par == 0:
                j = None
                break
            elif c == "{" and depth_par == 0:
                break
            j += 1
        if j is None or j >= len(masked):
            continue
        depth, e = 1, j + 1
        while depth and e < len(masked):
            depth += {"{": 1, "}": -1}.get(masked[e], 0)
            e += 1
        ctx = ""
        for a, b, head in spans:
            if a < m.start() < b:
                ctx = head
        body = re.sub(r"\s+", "", src[m.start():e])
        key = f"{ctx} :: {m.group(1)}" if ctx else m.group(1)
        n = seen.get(key, 0)
        seen[key] = n + 1
        if n:
            key += f" #{n}"
        out[key] = hashlib.sha1(body.encode()).hexdigest()[:16]
    return out


def scan(repo):
    res = {}
    d = os.path.join(repo, "src")
    for f in sorted(os.listdir(d)):
        if f.endswith(".rs") and f != "verif_hooks.rs":
            res["src/" + f] = functions(open(os.path.join(d, f)).read())
    return res


def main():
    mode, repo = sys.argv[1], sys.argv[2]
    if mode == "write":
        json.dump(scan(repo), open(sys.argv[3], "w"), indent=1, sort_keys=True)
        print("fingerprints:", sum(len(v) for v in scan(repo).values()), "functions")
        return
    rec = json.load(open(sys.argv[3]))
    cur = scan(repo)
    for f in sys.argv[4:]:
        a, b = rec.get(f, {}), cur.get(f, {})
        for k in sorted(set(a) | set(b)):
            if a.get(k) != b.get(k):
                print(f"{f} :: {k} :: {'changed' if k in a and k in b else 'added' if k in b else 'removed'}")


if __name__ == "__main__":
    main()
