#!/usr/bin/env python3
"""Regenerates lean/IndicatifModel/Generated/PadStep.lean from `LineType::padded_width` in src/draw_target.rs: the body of the
inner loop `for c in s.chars()` — straight-line integer code over `col`, `padding`, `w` and `width` — is translated statement by
statement into a Lean function `padStepSrc width col padding w : Nat × Nat` (`continue` returns the state unchanged). The code
around that body (the measure of the text, the iteration over the non-ANSI pieces, the width of a character, the result
`text_width + padding`) is compared strictly as text without white space and comments. Anything this script does not know stops it
with a non-zero exit (obligation `translator:gen_padded.py`). `usize` arithmetic is translated to `Nat`: the one subtraction,
`width - col % width`, cannot underflow where it is reached (`w <= width` there, so `width > 0`)."""
import os, re, sys
repo = sys.argv[1] if len(sys.argv) > 1 else os.environ.get("VERIF_REPO", "/repo")
out = sys.argv[2]
src = open(os.path.join(repo, "src/draw_target.rs")).read()

def die(msg): sys.exit("gen_padded: " + msg)

def norm(t):
    t = re.sub(r"//[^\n]*", "", t)
    return re.sub(r"\s+", "", t)

m = re.search(r"fn\s+padded_width\s*\(\s*&self\s*,\s*width\s*:\s*usize\s*\)\s*->\s*usize\s*\{", src)
if not m: die("fn padded_width(&self, width: usize) -> usize not found")
b = m.end() - 1; depth = 0; i = b
while True:
    if src.startswith("//", i): i = src.index("\n", i); continue
    if src[i] == "{": depth += 1
    elif src[i] == "}":
        depth -= 1
        if depth == 0: break
    i += 1
fn = norm(src[b:i + 1])
head = ("{lettext_width=self.console_width();#[cfg(feature=\"unicode-width\")]{letmutcol=0;letmutpadding=0;"
        "for(s,is_ansi)inconsole::AnsiCodeIterator::new(self.as_ref()){ifis_ansi{continue;}forcins.chars(){"
        "letw=unicode_width::UnicodeWidthChar::width(c).unwrap_or(0);")
tail = "}}text_width+padding}#[cfg(not(feature=\"unicode-width\"))]{let_=width;text_width}}"
if not (fn.startswith(head) and fn.endswith(tail)): die("the code around the inner loop of padded_width has changed: " + fn[:1500])
body = fn[len(head):len(fn) - len(tail)]
raw = re.sub(r"//[^\n]*", "", src[b:i + 1])
k = raw.index("unwrap_or(0);") + len("unwrap_or(0);")
j = raw.index("{", raw.index("in s.chars()")); depth = 0; e = j
while True:
    if raw[e] == "{": depth += 1
    elif raw[e] == "}":
        depth -= 1
        if depth == 0: break
    e += 1
body_raw = raw[k:e]
if norm(body_raw) != body: die("cannot locate the loop body")
if not re.search(r"fn\s+console_width\s*\(&self\)\s*->\s*usize\s*\{\s*console::measure_text_width\(self\.as_ref\(\)\)\s*\}", src):
    die("console_width is no longer console::measure_text_width(self.as_ref())")

# ---- a small parser for the body (text without white space)
VARS = {"col", "padding", "w", "width"}
TOK = re.compile(r"\d+|[A-Za-z_]\w*|\|\||&&|==|!=|<=|>=|\+=|[-+%*/<>(){};=]")
toks = TOK.findall(body_raw)
if "".join(toks) != body: die("characters not understood in the loop body: " + body)
pos = 0
def peek(): return toks[pos] if pos < len(toks) else None
def eat(t=None):
    global pos
    x = peek()
    if x is None or (t is not None and x != t): die(f"expected {t!r}, found {x!r} in the loop body")
    pos += 1; return x
LEVELS = [["||"], ["&&"], ["==", "!=", "<", ">", "<=", ">="], ["+", "-"], ["*", "/", "%"]]
LEAN_OP = {"||": "∨", "&&": "∧", "==": "=", "!=": "≠", "<": "<", ">": ">", "<=": "≤", ">=": "≥", "+": "+", "-": "-", "*": "*", "/": "/", "%": "%"}
def expr(level=0, env=None):
    if level == len(LEVELS): return atom(env)
    e = expr(level + 1, env)
    while peek() in LEVELS[level]:
        op = eat(); r = expr(level + 1, env)
        e = f"({e} {LEAN_OP[op]} {r})"
        if level == 2: break      # comparisons do not chain
    return e
def atom(env):
    t = eat()
    if t == "(":
        e = expr(0, env); eat(")"); return e
    if t.isdigit(): return t
    if t in env: return t
    die(f"unknown name {t!r} in the loop body")

def stmts(env, closing):
    """Lean term for the statements up to `closing` (None: end of body) followed by `k`"""
    if peek() == closing:
        return "(col, padding)" if closing is None else None
    t = peek()
    if t == "let":
        eat(); name = eat()
        if not re.fullmatch(r"[a-z_]\w*", name) or name in VARS: die(f"let of {name!r}")
        eat("="); e = expr(0, env); eat(";")
        rest = stmts(env | {name}, closing)
        return f"let {name} := {e}\n  {rest}" if rest is not None else None
    if t == "if":
        eat(); c = expr(0, env); eat("{")
        if peek() == "continue":
            eat(); eat(";"); eat("}")
            rest = stmts(env, closing)
            return f"if {c} then (col, padding) else\n  {rest}"
        ups = []
        while peek() != "}":
            v = eat()
            if v not in ("col", "padding"): die(f"assignment to {v!r} inside an if")
            eat("+="); e = expr(0, env); eat(";")
            ups.append((v, e))
        eat("}")
        # sequential updates inside the block
        inner = "(col, padding)"
        lets = "".join(f"let {v} := {v} + {e}; " for v, e in ups)
        rest = stmts(env, closing)
        return (f"let st : Nat × Nat := if {c} then ({lets}(col, padding)) else (col, padding)\n  let col := st.1\n  let padding := st.2\n  {rest}")
    if t in ("col", "padding"):
        v = eat(); eat("+="); e = expr(0, env); eat(";")
        rest = stmts(env, closing)
        return f"let {v} := {v} + {e}\n  {rest}"
    die(f"statement starting with {t!r} in the loop body")

# ---- wrapped_height: the rounding of the quotient and the bound
mw = re.search(r"fn\s+wrapped_height\s*\(\s*&self\s*,\s*width\s*:\s*usize\s*\)\s*->\s*VisualLines\s*\{", src)
if not mw: die("fn wrapped_height(&self, width: usize) -> VisualLines not found")
wb = mw.end() - 1; depth = 0; wi = wb
while True:
    if src.startswith("//", wi): wi = src.index("\n", wi); continue
    if src[wi] == "{": depth += 1
    elif src[wi] == "}":
        depth -= 1
        if depth == 0: break
    wi += 1
wh = norm(src[wb:wi + 1])
mh = re.fullmatch(r"\{letterminal_len=\(self\.padded_width\(width\)asf64/widthasf64\)\.(ceil|floor|round)\(\)asusize;usize::(max|min)\(terminal_len,(\d+)\)\.into\(\)\}", wh)
if not mh: die("the shape of wrapped_height has changed: " + wh)
quot = {"ceil": "((padded + width - 1) / width)", "floor": "(padded / width)", "round": "((2 * padded + width) / (2 * width))"}[mh.group(1)]
wrapped = f"{mh.group(2)} {quot} {mh.group(3)}"

term = stmts(set(VARS), None)
if pos != len(toks): die("trailing text in the loop body")

with open(out, "w") as f:
    f.write("/-! GENERATED by tools/gen_padded.py from `LineType::padded_width` (src/draw_target.rs) — do not edit. -/\n")
    f.write("namespace IndicatifModel.Generated\n\n")
    f.write("/-- the body of `for c in s.chars()` in `padded_width`: the state `(col, padding)` after a character `w` columns wide on a\nterminal of `width` columns. Source: `" + body.replace("*/", "* /") + "` -/\n")
    f.write("def padStepSrc (width col padding w : Nat) : Nat × Nat :=\n  " + term + "\n\n")
    f.write("/-- `wrapped_height`: `(padded_width as f64 / width as f64)." + mh.group(1) + "() as usize`, then `usize::" + mh.group(2) + "(terminal_len, " + mh.group(3) + ")`\n(the quotient of two integers below 2^53, rounded as the source says) -/\n")
    f.write("def wrappedHeightSrc (padded width : Nat) : Nat := " + wrapped + "\n\n")
    f.write("end IndicatifModel.Generated\n")
