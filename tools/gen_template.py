#!/usr/bin/env python3
"""Regenerates lean/IndicatifModel/Generated/TemplateArms.lean from `Template::from_str_with_tab_width` in src/style.rs:
the arms of `match (state, c)` (states, character pattern, guard, next state, pushed character, block) and of
`match (state, new.0)` (old states, new states, action), and the states in which pending text is flushed at the end.
Strict: a pattern, guard, value or block this script does not know stops it with a non-zero exit (the check then reports
the obligation `translator:gen_template.py`). Blocks are recognised by their text with white space and comments removed."""
import os, re, sys
repo = sys.argv[1] if len(sys.argv) > 1 else os.environ.get("VERIF_REPO", "/repo")
out = sys.argv[2]
src = open(os.path.join(repo, "src/style.rs")).read()

def die(msg): sys.exit("gen_template: " + msg)

def skip_literal(s, i):
    """if a char literal, string literal or line comment starts at i, return the index after it, else i"""
    if s.startswith("//", i):
        j = s.find("\n", i); return len(s) if j < 0 else j
    if s[i] == '"':
        j = i + 1
        while s[j] != '"': j += 2 if s[j] == "\\" else 1
        return j + 1
    if s[i] == "'":
        m = re.match(r"'(\\u\{[0-9a-fA-F]+\}|\\.|[^\\'])'", s[i:])
        if m: return i + m.end()
    return i

def matching(s, i):
    """s[i] is an opening bracket; index of the matching closing one"""
    pairs = {"{": "}", "(": ")", "[": "]"}
    stack = [pairs[s[i]]]; i += 1
    while stack:
        j = skip_literal(s, i)
        if j != i: i = j; continue
        c = s[i]
        if c in pairs: stack.append(pairs[c])
        elif c in "})]":
            if c != stack.pop(): die("unbalanced brackets")
        i += 1
    return i - 1

def norm(t):
    """text without comments and white space (literals kept)"""
    o = []; i = 0
    while i < len(t):
        if t.startswith("//", i):
            j = t.find("\n", i); i = len(t) if j < 0 else j; continue
        j = skip_literal(t, i)
        if j != i: o.append(t[i:j]); i = j; continue
        if not t[i].isspace(): o.append(t[i])
        i += 1
    return "".join(o)

def arms_of(body):
    """[(pattern text, value text)] of a match body"""
    res = []; i = 0; n = len(body)
    while True:
        while i < n and (body[i].isspace() or body[i] == ","): i += 1
        if i >= n: break
        if body.startswith("//", i): i = skip_literal(body, i); continue
        start = i; depth = 0
        while not (depth == 0 and body.startswith("=>", i)):
            j = skip_literal(body, i)
            if j != i: i = j; continue
            if body[i] in "({[": i = matching(body, i) + 1; continue
            i += 1
            if i >= n: die("arm without =>")
        pat = body[start:i].strip(); i += 2
        while body[i].isspace(): i += 1
        if body[i] == "{":
            e = matching(body, i); val = body[i:e + 1]; i = e + 1
        else:
            vs = i
            while i < n and body[i] != ",":
                j = skip_literal(body, i)
                if j != i: i = j; continue
                if body[i] in "({[": i = matching(body, i) + 1; continue
                i += 1
            val = body[vs:i]
        res.append((pat, val.strip()))
    return res

STATES = {"Literal": "literal", "MaybeOpen": "maybeOpen", "DoubleClose": "doubleClose", "Key": "key", "Align": "align", "Width": "width",
          "FirstStyle": "firstStyle", "AltStyle": "altStyle"}
def state(t):
    t = t.strip()
    if t not in STATES: die(f"unknown state {t!r}")
    return "." + STATES[t]
def states(t): return "[" + ", ".join(state(x) for x in t.split("|")) + "]"

def char_lit(t):
    m = re.fullmatch(r"'(\\u\{([0-9a-fA-F]+)\}|\\(.)|([^\\']))'", t)
    if not m: die(f"not a character literal: {t!r}")
    if m.group(2): cp = int(m.group(2), 16)
    elif m.group(3): cp = {"n": 10, "t": 9, "r": 13, "0": 0, "\\": 92, "'": 39, '"': 34}.get(m.group(3)) or die(f"unknown escape {t!r}")
    else: cp = ord(m.group(4))
    return f"(Char.ofNat {cp})"

GUARDS = {"": ".none", "c.is_ascii_whitespace()": ".isWs", "c!='}'&&c!=':'": ".notCloseColon", "!buf.is_empty()": ".bufNonEmpty",
          "c=='<'||c=='^'||c=='>'": ".alignChar"}

# the blocks of the first match, by their normalised text
ACTS = {
    "if!buf.is_empty(){parts.push(TemplatePart::Literal(TabExpandedString::new(mem::take(&mutbuf).into(),tab_width,)));}parts.push(TemplatePart::NewLine);": ".newline",
    "letmutnew=matchstate{MaybeOpen=>mem::take(&mutbuf)+\"{\",_=>String::from(\"{\")+&mem::take(&mutbuf),};new.push(c);parts.push(TemplatePart::Literal(TabExpandedString::new(new.into(),tab_width,)));": ".backtrack",
    "parts.push(TemplatePart::Placeholder{key:mem::take(&mutbuf),align:Alignment::Left,width:None,truncate:true,style:None,alt_style:None,});": ".phTruncate",
    "ifletSome(TemplatePart::Placeholder{align,..})=parts.last_mut(){matchc{'<'=>*align=Alignment::Left,'^'=>*align=Alignment::Center,'>'=>*align=Alignment::Right,_=>(),}}": ".setAlign",
    "ifletSome(TemplatePart::Placeholder{truncate,..})=parts.last_mut(){*truncate=true;}": ".setTrunc",
}
# the values of the second match
ACTS2 = {
    "parts.push(TemplatePart::Literal(TabExpandedString::new(mem::take(&mutbuf).into(),tab_width),))": ".pushLit",
    "{parts.push(TemplatePart::Placeholder{key:mem::take(&mutbuf),align:Alignment::Left,width:None,truncate:false,style:None,alt_style:None,});}": ".pushPh",
    "{ifletSome(TemplatePart::Placeholder{width,..})=parts.last_mut(){*width=matchbuf.parse(){Ok(width)=>Some(width),Err(_)=>returnErr(TemplateError{next:c,state}),};buf.clear();}}": ".setWidth",
    "{ifletSome(TemplatePart::Placeholder{style,..})=parts.last_mut(){*style=Some(Style::from_dotted_str(&buf));buf.clear();}}": ".setStyle",
    "{ifletSome(TemplatePart::Placeholder{alt_style,..})=parts.last_mut(){*alt_style=Some(Style::from_dotted_str(&buf));buf.clear();}}": ".setAlt",
}

i0 = src.find("fn from_str_with_tab_width")
if i0 < 0: die("cannot find from_str_with_tab_width")
fb = src.index("{", i0); fe = matching(src, fb)
fn = src[fb:fe + 1]
nf = norm(fn)
# the frame around the two matches
for need in ["useState::*;let(mutstate,mutparts,mutbuf)=(Literal,vec![],String::new());forcins.chars(){letnew=match(state,c){",
             "state=new.0;ifletSome(c)=new.1{buf.push(c);}}",
             "Ok(Self{parts})}"]:
    if need not in nf: die(f"the loop around the matches has changed (missing {need!r})")
if not re.search(r"buf:\s*&mut String|width:\s*Option<u16>", src): die("Placeholder.width is no longer Option<u16>")

m1 = fn.index("let new = match (state, c)")
b1 = fn.index("{", m1); e1 = matching(fn, b1)
first = arms_of(fn[b1 + 1:e1])
m2 = fn.index("match (state, new.0)", e1)
b2 = fn.index("{", m2); e2 = matching(fn, b2)
second = arms_of(fn[b2 + 1:e2])
between = norm(fn[e1 + 1:m2])
if between != ";": die(f"statements between the two matches: {between!r}")

lines = []
catch_all = False
for pat, val in first:
    if catch_all: die("arms after the catch-all arm")
    np = norm(pat)
    if np == "(st,c)":
        if norm(val) != "returnErr(TemplateError{next:c,state:st})": die(f"catch-all arm: {val!r}")
        catch_all = True; continue
    m = re.fullmatch(r"\((.*?),(.*?)\)(?:if(.*))?", np)
    if not m: die(f"pattern {pat!r}")
    sts, cp, g = m.group(1), m.group(2), m.group(3) or ""
    if g not in GUARDS: die(f"unknown guard {g!r}")
    if cp == "c": cpat = ".any"
    elif cp == "c@'0'..='9'": cpat = ".digit"
    else: cpat = f".lit {char_lit(cp)}"
    if val.startswith("{"):
        inner = val[1:-1]
        # the value of the block is its last expression, a tuple
        k = inner.rstrip().rfind("(")
        tup = inner[k:]; block = norm(inner[:k])
        if block not in ACTS: die(f"unknown block in arm {pat!r}: {block!r}")
        act = ACTS[block]
    else:
        tup = val; act = ".none"
    mt = re.fullmatch(r"\((\w+),(None|Some\((.*)\))\)", norm(tup))
    if not mt: die(f"value of arm {pat!r}: {tup!r}")
    nxt = state(mt.group(1))
    if mt.group(2) == "None": push = ".none"
    elif mt.group(3) == "c": push = ".same"
    else: push = f".lit {char_lit(mt.group(3))}"
    lines.append(f"  {{ states := {states(sts)}, pat := {cpat}, guard := {GUARDS[g]}, next := {nxt}, push := {push}, act := {act} }} /- {' '.join(pat.split())} -/")
if not catch_all: die("no catch-all error arm")

tlines = []
catch2 = False
for pat, val in second:
    if catch2: die("arms after the catch-all arm of the second match")
    np = norm(pat)
    if np == "(_,_)":
        if norm(val) != "()": die(f"catch-all of the second match: {val!r}")
        catch2 = True; continue
    m = re.fullmatch(r"\((.*?),(.*?)\)if!buf\.is_empty\(\)", np)
    if not m: die(f"pattern of the second match {pat!r}")
    nv = norm(val)
    if nv not in ACTS2: die(f"unknown action in arm {pat!r} of the second match: {nv!r}")
    tlines.append(f"  {{ olds := {states(m.group(1))}, news := {states(m.group(2))}, act := {ACTS2[nv]} }} /- {' '.join(pat.split())} -/")
if not catch2: die("no catch-all arm in the second match")

tail = norm(fn[e2 + 1:])
mf = re.match(r"state=new\.0;ifletSome\(c\)=new\.1\{buf\.push\(c\);\}\}ifmatches!\(state,([A-Za-z|]+)\)&&!buf\.is_empty\(\)\{parts\.push\(TemplatePart::Literal\(TabExpandedString::new\(buf\.into\(\),tab_width,\)\)\);\}Ok\(Self\{parts\}\)\}$", tail)
if not mf: die(f"the end of the function has changed: {tail!r}")

with open(out, "w") as f:
    f.write("import IndicatifModel.Model.TemplateTable\n")
    f.write("/-! GENERATED by tools/gen_template.py from `Template::from_str_with_tab_width` (src/style.rs) — do not edit. -/\n")
    f.write("namespace IndicatifModel.Generated\nopen IndicatifModel.Template\n\n")
    f.write("/-- the arms of `match (state, c)`, in source order; the catch-all arm returns `Err(TemplateError { next: c, state: st })` -/\n")
    f.write("def parserArms : List PArm := [\n" + ",\n".join(lines) + "\n]\n\n")
    f.write("/-- the arms of `match (state, new.0)`, each guarded by `!buf.is_empty()`; the catch-all arm does nothing -/\n")
    f.write("def transitionArms : List TArm := [\n" + ",\n".join(tlines) + "\n]\n\n")
    f.write("/-- `matches!(state, …) && !buf.is_empty()` after the loop: pending text becomes a last literal -/\n")
    f.write(f"def flushStates : List PState := {states(mf.group(1))}\n\n")
    f.write("end IndicatifModel.Generated\n")
