"""Single table behind ./check, MANIFEST.json and the evidence files: per property the harness streams that tie
the Lean model to the code, the regenerated facts, and the claim texts."""

TRUSTED_BASE = [
    "Lean 4.33 kernel (thorough tier: re-checked by leanchecker)",
    "axioms propext, Classical.choice, Quot.sound only (audited with #print axioms for every property theorem)",
    "hand-written Lean model of the crate, tied to /repo's working tree on every run by the correspondence harness (same generated cases run on the real crate and on the compiled model, observations diffed)",
    "the Rust harness, its generators and oracles; the cargo feature verif-hooks (virtual Instant, sync/thread shim wrapping std)",
    "terminal modelled as a VT100-style grid, validated against the vt100 crate; unicode-width taken as the definition of display width",
]

COMMON_NOTE = ("Trusted: Lean kernel + propext/Classical.choice/Quot.sound; the hand-written model is tied to the code only as far as the "
               "correspondence generators exercise it; harness, oracles and the verif-hooks shims are trusted. ")

PROPS = {
    "C05": dict(
        streams=[dict(cmd="C05")],
        technique="Lean 4 theorems (potential-function invariant of the token bucket, induction over call histories) + differential correspondence on a virtual clock",
        level_text="The token-bucket law is proved in Lean for every non-decreasing call history, every state and every window; the model's allow/skip "
                   "verdicts are compared with the real limiter call by call on generated gap sequences for all rates 1..=255.",
        level_note=COMMON_NOTE + "Time is the virtual clock of verif-hooks.",
        claimed=False),
    "C06": dict(
        streams=[dict(cmd="C06", oracle_only=True)],
        technique="Lean 4 theorems (silence of hidden targets, relational induction: logical state independent of the target) + twin-run correspondence",
        level_text="Proved in Lean for every operation history: a hidden bar emits no terminal operation and its logical state equals that of a visible twin; "
                   "twin runs of the real crate (hidden target, hidden multi, removed bar, non-tty stderr) are compared getter by getter.",
        level_note=COMMON_NOTE + "The non-tty case runs in a child process with stderr redirected to a file."),
    "C07": dict(
        streams=[dict(cmd="C07")],
        technique="Lean 4 theorems (wrapping/saturating arithmetic specs, permutation invariance of atomic increments) + differential correspondence",
        level_text="Position/length bookkeeping is proved against its arithmetic specification for every history, and the final position is proved independent of "
                   "the interleaving of atomic inc/dec steps; getters of the real crate are compared with the model after every call.",
        level_note=COMMON_NOTE + "Each portable_atomic fetch_add/fetch_sub/store is assumed to be one atomic step."),
    "C11": dict(
        streams=[dict(cmd="C11", oracle_only=True)],
        gen=[("tools/gen_keys.py", "lean/IndicatifModel/Generated/Keys.lean")],
        technique="Lean 4 theorems over key tables regenerated from src/lib.rs and src/style.rs on every run + oracle comparison of rendered keys with public formatters/getters",
        level_text="The documented and implemented placeholder tables are re-extracted from the sources on every run and the coverage theorems re-checked by the kernel; "
                   "each key's rendering on the real crate is compared with the public formatter applied to the public getter at the same virtual instant.",
        level_note=COMMON_NOTE + "The value clause is decided by the oracle on generated states (keys x states x histories), not by a theorem about format_state."),
    "C13": dict(
        streams=[dict(cmd="C13")],
        technique="Lean 4 theorems over an abstract IEEE-style arithmetic record (monotone rounding fixing small naturals) + bit-exact correspondence with hardware f32",
        level_text="Cell count, shape, zero/full and monotonicity of the bar geometry are proved for every width, position, length and character set over any arithmetic "
                   "satisfying the stated rounding laws; the executable model on hardware Float32 reproduces the rendered cells of the real crate exactly.",
        level_note=COMMON_NOTE + "That the platform's f32 satisfies the three rounding laws (IEEE-754) is assumed, and validated bit-exactly on the generated grid."),
    "C15": dict(
        streams=[dict(cmd="C15")],
        technique="Lean 4 theorems about the integer cores of the formatters + string-exact differential correspondence",
        level_text="Field ranges, unit selection and rounding of the duration/count formatters are proved over all naturals; the model's strings equal the crate's on "
                   "all unit boundaries and random values.",
        level_note=COMMON_NOTE + "f64 steps are executed on hardware floats in the driver; theorems are about the integer/rational cores."),
    "C16": dict(
        streams=[dict(cmd="C16")],
        technique="Lean 4 invariant proof over histories of tab-width/style/text calls + differential correspondence",
        level_text="An invariant of the tab-expansion state is proved inductive over every call history and implies that no TAB reaches a rendered line; the bytes written "
                   "by the real crate are scanned and compared with the model.",
        level_note=COMMON_NOTE),
}

for _p, _d in PROPS.items():
    _d.setdefault("claimed", True)
