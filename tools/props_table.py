"""Single table behind ./check, MANIFEST.json and the evidence files: per property the harness streams that tie
the Lean model to the code, the regenerated facts, and the claim texts."""

TRUSTED_BASE = [
    "Lean 4.33 kernel (thorough tier: re-checked by leanchecker)",
    "axioms propext, Classical.choice, Quot.sound only (audited with #print axioms for every property theorem)",
    "hand-written Lean model of the crate, tied to /repo's working tree on every run by the correspondence harness (same generated cases run on the real crate and on the compiled model, observations diffed)",
    "the Rust harness, its generators and oracles; the cargo feature verif-hooks (virtual Instant, sync/thread shim wrapping std)",
    "terminal modelled as a VT100-style grid, validated against the vt100 crate; unicode-width taken as the definition of display width",
]

COMMON_NOTE = ("Trusted: Lean kernel + propext/Classical.choice/Quot.sound; the hand-written model is tied to the code only as far as the "
               "correspondence generators exercise it; harness, oracles and the verif-hooks shims are trusted. ")

PROPS = {
    "C05": dict(
        streams=[dict(cmd="C05"), dict(cmd="C05P"), dict(cmd="C05M")],
        technique="Lean 4 theorems (potential-function invariant of the token bucket, induction over call histories) + differential correspondence on a virtual clock",
        level_text="The token-bucket law (window bound 20 + R*T + 1 literally, the same law for the position gate, liveness, and the staleness bound of the "
                   "gate/limiter pipeline) is proved in Lean for every non-decreasing call history, every bucket state and every window; the model's "
                   "tick/paint verdicts are compared with the real limiters call by call on generated gap sequences for all rates 1..=255.",
        level_note=COMMON_NOTE + "Time is the virtual clock of verif-hooks.",
        ),
    "C06": dict(
        streams=[dict(cmd="C06", oracle_only=True)],
        technique="Lean 4 theorems (silence of hidden targets, relational induction: logical state independent of the target) + twin-run correspondence",
        level_text="Proved in Lean for every operation history: a hidden bar emits no terminal operation and its logical state equals that of a visible twin; "
                   "twin runs of the real crate (hidden target, hidden multi, removed bar, non-tty stderr) are compared getter by getter.",
        level_note=COMMON_NOTE + "The non-tty case runs in a child process with stderr redirected to a file."),
    "C07": dict(
        streams=[dict(cmd="C07"), dict(cmd="C07T", oracle_only=True)],
        gen=[("tools/gen_atomics.py", "lean/IndicatifModel/Generated/Atomics.lean")],
        technique="Lean 4 theorems (wrapping/saturating arithmetic specs, permutation invariance of atomic increments) + differential correspondence",
        level_text="Position/length bookkeeping is proved against its arithmetic specification for every history, and the final position is proved independent of "
                   "the interleaving of atomic inc/dec steps; getters of the real crate are compared with the model after every call.",
        level_note=COMMON_NOTE + "Each portable_atomic fetch_add/fetch_sub/store is assumed to be one atomic step."),
    "C11": dict(
        streams=[dict(cmd="C11", oracle_only=True), dict(cmd="C11T", oracle_only=True)],
        gen=[("tools/gen_keys.py", "lean/IndicatifModel/Generated/Keys.lean")],
        technique="Lean 4 theorems over key tables regenerated from src/lib.rs and src/style.rs on every run + oracle comparison of rendered keys with public formatters/getters",
        level_text="The documented and implemented placeholder tables are re-extracted from the sources on every run and the coverage theorems re-checked by the kernel; "
                   "each key's rendering on the real crate is compared with the public formatter applied to the public getter at the same virtual instant.",
        level_note=COMMON_NOTE + "The value clause is decided by the oracle on generated states (keys x states x histories), not by a theorem about format_state."),
    "C13": dict(
        streams=[dict(cmd="C13"), dict(cmd="C13R", oracle_only=True)],
        technique="Lean 4 theorems over an abstract IEEE-style arithmetic record (monotone rounding fixing small naturals) + bit-exact correspondence with hardware f32",
        level_text="Cell count, shape, zero/full and monotonicity of the bar geometry are proved for every width, position, length and character set over any arithmetic "
                   "satisfying the stated rounding laws; the executable model on hardware Float32 reproduces the rendered cells of the real crate exactly.",
        level_note=COMMON_NOTE + "That the platform's f32 satisfies the three rounding laws (IEEE-754) is assumed, and validated bit-exactly on the generated grid."),
    "C15": dict(
        streams=[dict(cmd="C15")],
        technique="Lean 4 theorems about the integer cores of the formatters + string-exact differential correspondence",
        level_text="Field ranges, unit selection and rounding of the duration/count formatters are proved over all naturals; the model's strings equal the crate's on "
                   "all unit boundaries and random values.",
        level_note=COMMON_NOTE + "f64 steps are executed on hardware floats in the driver; theorems are about the integer/rational cores."),
    "C16": dict(
        streams=[dict(cmd="C16")],
        technique="Lean 4 invariant proof over histories of tab-width/style/text calls + differential correspondence",
        level_text="An invariant of the tab-expansion state is proved inductive over every call history and implies that no TAB reaches a rendered line; the bytes written "
                   "by the real crate are scanned and compared with the model.",
        level_note=COMMON_NOTE),
}

PROPS.update({
    "C01": dict(
        streams=[dict(cmd="C01")],
        technique="Lean 4 refinement proof (draw_to_term against a VT100 grid model, induction over draw-request histories) + screen-exact differential correspondence",
        level_text="Redraw integrity (screen = printed lines ++ current frame, no residue, cursor parked for following output) is proved in Lean for every history of draw "
                   "requests on every terminal width; the model's screen and cursor equal the vt100-emulated screen of the real crate at every flush of generated histories.",
        level_note=COMMON_NOTE + "Glyphs of width <= 1 in the theorems; move_cursor=false; the vt100 emulator stands for the terminal.",
        ),
    "C02": dict(
        streams=[dict(cmd="C02"), dict(cmd="C03b"), dict(cmd="ROWS")],
        technique="Lean 4 refinement proof (slot bookkeeping refines the documented order; frame invariant of the row-level MultiState model over every operation history) + differential correspondence",
        level_text="The ordering/free-set bookkeeping of MultiState is proved to refine the documented list-of-bars order for every operation history, with the slot partition "
                   "kept by every operation; on the row-level model (validated against the real terminal by the ROWS stream) it is proved for every history that the managed region "
                   "is exactly the members' last painted rows in visual order, that a painted frame shows each member's stored rendering once and in order, and that a removed bar "
                   "leaves the frame in the same call; screens of the real MultiProgress equal the model's at every flush and are judged by an order/once-only oracle.",
        level_note=COMMON_NOTE + "Concurrency: draws are serialised by the multi write lock (lock-trace correspondence of C08).",
        ),
    "C03": dict(
        streams=[dict(cmd="C03"), dict(cmd="C03b"), dict(cmd="ROWS"), dict(cmd="C03H", oracle_only=True)],
        technique="Lean 4 invariant proof over every operation history of a row-level model of MultiState (validated against the real terminal) + per-redraw terminal refinement + log-preservation oracle",
        level_text="For every history of MultiProgress/bar operations and every limiter state, the row-level model of MultiState's accounting is proved never to touch a row above the "
                   "last z+n rows and to append every printed line there (C03_rows_above_never_touched, C03_log_preserved); one redraw with erase count n is proved on the terminal model "
                   "to erase exactly the last n rows. The row model's screens equal the real terminal's at every painted frame (ROWS stream), the full model's at every flush "
                   "(top and bottom alignment), and the log oracle judges the real screen.",
        level_note=COMMON_NOTE,
        ),
    "C04": dict(
        streams=[dict(cmd="C04"), dict(cmd="C04B"), dict(cmd="ROWS")],
        technique="Lean 4 theorems (finish/drop emit exactly the forced draw of the final state, for every limiter state) + differential correspondence",
        level_text="For every bar state, limiter state and finish kind the finishing call is proved to paint exactly the final frame without consulting the limiter; drop is "
                   "proved equal to finish_using_style or a no-op; on the row-level MultiState model (ROWS stream) finishing a member is proved to paint its final rendering for every "
                   "multi state, and finished members are proved to keep their last rendering inside the managed region after every history; final frames of real histories are compared with the model and judged by the final-rendering oracle.",
        level_note=COMMON_NOTE,
        ),
    "C08": dict(
        streams=[dict(cmd="C08"), dict(cmd="C08S", oracle_only=True)],
        technique="Lean 4 proof (lock-rank ordering of every public call's lock program implies progress) + lock-trace correspondence through the sync shim",
        level_text="Every public call's lock program is proved rank-ordered and balanced, which implies that some thread can always step; the programs are compared with "
                   "the acquire/release/join traces recorded from the real crate for every call x configuration.",
        level_note=COMMON_NOTE + "std::sync primitives modelled by their documented semantics; OS scheduler fairness not modelled.",
        ),
    "C09": dict(
        streams=[dict(cmd="C09", float_bits=True)],
        technique="Lean 4 theorems over an ordered field with an exponential weight + bit-level correspondence of the Float transcription",
        level_text="The steady-rate fixed point of the double-exponential estimator is proved over any ordered field; the Float transcription reproduces the crate's outputs.",
        level_note=COMMON_NOTE + "libm pow is outside the model (relative tolerance 1e-9).",
        ),
    "C10": dict(
        streams=[dict(cmd="C10")],
        technique="Lean 4 proofs of totality (induction over the input string) and fidelity (every template of the documented grammar parses to exactly the parts it denotes) of the transcribed parser state machine + exhaustive/generated differential classification",
        level_text="The arm-by-arm Lean transcription of the template parser is proved never to panic on any string and to map every well-formed template (literal text with doubled braces, "
                   "{key[:[<^>][width][!][.style[/alt]]]} placeholders, line breaks) to exactly the parts it denotes (C10_faithful); its Ok/Err(state,char) classification equals the real "
                   "parser's on all short strings over the brace alphabet, random Unicode strings and grammar-generated templates, whose rendering is judged for fidelity.",
        level_note=COMMON_NOTE,
        ),
    "C12": dict(
        streams=[dict(cmd="C12"), dict(cmd="C12W", oracle_only=True)],
        technique="Lean 4 theorems about the padding/truncation function on glyph lists + output-exact differential correspondence",
        level_text="Exact width and placement of padded fields and the non-truncating case are proved for all contents; outputs of the real crate equal the model's.",
        level_note=COMMON_NOTE,
        ),
    "C14": dict(
        streams=[dict(cmd="C14")],
        technique="Lean 4 proof that every style accepted by the modelled builder renders without panic, for all ticks/states + accept/panic correspondence",
        level_text="Builder assertions are transcribed; every accepted style is proved to render without index/division panics for every tick up to 2^64-1 and every width; "
                   "accept/panic behaviour of the real builder and renderer equals the model's on generated builder chains.",
        level_note=COMMON_NOTE,
        ),
    "C17": dict(
        streams=[dict(cmd="C17")],
        technique="Lean 4 proof (position after any sequence of wrapped I/O calls = bytes transferred) + scripted-source differential correspondence",
        level_text="For every call sequence over scripted sources/sinks the wrapper position is proved to advance by exactly the bytes transferred; the real wrappers are run "
                   "on the same scripts and compared with the bare object and the model.",
        level_note=COMMON_NOTE,
        ),
    "C18": dict(
        streams=[dict(cmd="C18", oracle_only=True), dict(cmd="C18F")],
        technique="Lean 4 relational proof over a fault-plan model of the MultiProgress (any two fault plans, every history: same logical state, membership, order, panics; errors reported) + fault-injected correspondence + exhaustive fault-index enumeration per history on the real crate",
        level_text="The MultiProgress operations with every terminal call subject to a fault plan (k-th call fails, optionally all later ones) are modelled; for every history and every pair of "
                   "plans the two runs are proved to agree on every bar's logical state, on membership and order and on panics, println/clear are proved to report exactly whether a call failed, "
                   "and the pinned unwrap in suspend is proved to panic. The model's per-call outcomes and call counts equal the fault-injected crate's on sampled plans; for generated histories "
                   "every fault index (once and sticky, five error kinds) is run on the real crate with catch_unwind per call, comparing getters with a fault-free twin.",
        level_note=COMMON_NOTE,
        ),
    "C19": dict(
        streams=[dict(cmd="C19"), dict(cmd="C19M")],
        technique="Lean 4 proof (kept row count never exceeds the terminal height, every frame sequence; wrapped height = rows of wrap) + differential correspondence",
        level_text="last_line_count <= H is proved for every frame sequence and alignment, and the wrapped-height formula is proved equal to the rows written; screens of "
                   "the real crate on terminals from 1x1 up equal the model's.",
        level_note=COMMON_NOTE + "Glyph width <= 1 in the theorems.",
        ),
})

for _p, _d in PROPS.items():
    _d.setdefault("claimed", True)
