#!/bin/bash
# regenerates every Generated/*.lean from the repository (VERIF_REPO, default /repo)
cd "$(dirname "$0")/.."
REPO="${VERIF_REPO:-/repo}"
python3 tools/rs2lean.py "$REPO" lean/IndicatifModel/Generated/Funs.lean
for p in tools/gen_*.py; do
  case "$p" in
    tools/gen_keys.py) python3 "$p" "$REPO" lean/IndicatifModel/Generated/Keys.lean ;;
    tools/gen_atomics.py) python3 "$p" "$REPO" lean/IndicatifModel/Generated/Atomics.lean ;;
    tools/gen_unwraps.py) python3 "$p" "$REPO" lean/IndicatifModel/Generated/Unwraps.lean ;;
    tools/gen_template.py) python3 "$p" "$REPO" lean/IndicatifModel/Generated/TemplateArms.lean ;;
    tools/gen_overrides.py) python3 "$p" "$REPO" lean/IndicatifModel/Generated/Overrides.lean ;;
    tools/gen_termlike.py) python3 "$p" "$REPO" lean/IndicatifModel/Generated/TermForward.lean ;;
    tools/gen_duration.py) python3 "$p" "$REPO" lean/IndicatifModel/Generated/HumanDur.lean ;;
    tools/gen_padded.py) python3 "$p" "$REPO" lean/IndicatifModel/Generated/PadStep.lean ;;
    tools/gen_finish.py) python3 "$p" "$REPO" lean/IndicatifModel/Generated/FinishArms.lean ;;
  esac
done
