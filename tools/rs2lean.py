#!/usr/bin/env python3
"""rs2lean: translator from a small, integer-only subset of Rust to Lean 4.

Regenerates lean/IndicatifModel/Generated/Funs.lean from the repository's *current* sources on every run.
Each translated function becomes a total Lean function into `Option`: `none` stands for a Rust panic
(unsigned underflow, overflow of `+`/`*` at the operand type, division by zero, `unwrap()` of `None`),
`some (ret, self')` for a normal return with the updated receiver. Theorems in Proofs/GenBridge.lean then
relate the generated definitions to the hand-written model (Model/Limiter, Model/Position); the kernel
re-checks them against what the code says now, so a semantic change of a translated function breaks a
proof obligation even when no generated test case happens to exercise it.

Values are `Nat`. `u8/u16/u32/u64/u128/usize` operands carry their width for overflow guards and for
narrowing casts (`e as uN` = `e % 2^N`; a widening cast is the identity, which is faithful for in-range
states -- the theorems assume every field within the range of its Rust type). `Instant` and `Duration`
are nanosecond counts; `Instant - Instant` saturates (as std's and the hook's do), `Duration::from_nanos`
and `as_nanos` are the identity, `checked_sub(..).unwrap()` panics on underflow.

The translator is deliberately strict: any token, statement or method it does not know makes it exit
non-zero, and the check then reports the obligation `translator:rs2lean.py` as unproved.
"""
import os, re, sys

# ---------------------------------------------------------------- lexer
TOK = re.compile(r"""
    (?P<ws>\s+|//[^\n]*|/\*.*?\*/)
  | (?P<str>"(?:[^"\\]|\\.)*")
  | (?P<int>\d[\d_]*(?:\.\d[\d_]*)?(?:[ui](?:8|16|32|64|128|size)|f32|f64)?)
  | (?P<id>[A-Za-z_][A-Za-z0-9_]*)
  | (?P<op>::|->|=>|==|!=|<=|>=|&&|\|\||\.\.|[-+*/%<>=!&|.,;:(){}\[\]#?])
""", re.X | re.S)


class Fail(Exception):
    pass


def lex(src):
    out, i = [], 0
    while i < len(src):
        m = TOK.match(src, i)
        if not m:
            raise Fail(f"cannot tokenise at: {src[i:i+30]!r}")
        i = m.end()
        if m.lastgroup != "ws":
            out.append((m.lastgroup, m.group(m.lastgroup)))
    return out


LEAN_KEYWORDS = {"end", "from", "at", "by", "do", "fun", "have", "show", "then", "else", "with", "in", "open", "where", "at", "mut", "section", "namespace", "instance", "structure", "class", "theorem", "def", "let", "match", "if", "return", "for", "unless", "macro", "syntax", "deriving", "variable", "universe", "export", "import", "private", "protected", "local", "set_option", "attribute", "example", "abbrev", "inductive", "axiom", "using", "infix", "notation", "prefix", "postfix", "calc", "suffices", "obtain", "exact", "nomatch", "nofun"}


def lean_id(name):
    """a Rust identifier as a Lean identifier"""
    return name + "_" if name in LEAN_KEYWORDS else name


INT_T = {"u8": 8, "u16": 16, "u32": 32, "u64": 64, "u128": 128, "usize": 64}
ATOMIC = {"AtomicU8": "u8", "AtomicU64": "u64", "AtomicUsize": "usize"}


# ---------------------------------------------------------------- parser (expressions: Pratt)
class P:
    def __init__(self, toks):
        self.t, self.i = toks, 0

    def peek(self, k=0):
        return self.t[self.i + k][1] if self.i + k < len(self.t) else None

    def kind(self):
        return self.t[self.i][0] if self.i < len(self.t) else None

    def eat(self, s=None):
        if self.i >= len(self.t):
            raise Fail(f"unexpected end, wanted {s}")
        k, v = self.t[self.i]
        if s is not None and v != s:
            raise Fail(f"expected {s!r}, found {v!r} near {' '.join(x[1] for x in self.t[max(0,self.i-6):self.i+4])}")
        self.i += 1
        return v

    BIN = {"..": 0, "||": 1, "&&": 2, "==": 3, "!=": 3, "<": 3, "<=": 3, ">": 3, ">=": 3, "+": 5, "-": 5, "*": 6, "/": 6, "%": 6}

    def expr(self, minp=0, nostruct=False):
        e = self.unary(nostruct)
        while True:
            op = self.peek()
            if op == "as":
                if 7 < minp:
                    break
                self.eat()
                e = ("cast", e, self.eat())
                continue
            if op in ("/", "%", "+", "-", "*") and self.peek(1) == "=":
                break               # compound assignment, handled by the statement parser
            if op in self.BIN and self.BIN[op] >= minp:
                p = self.BIN[op]
                self.eat()
                r = self.expr(p + 1, nostruct)
                e = ("bin", op, e, r)
                continue
            break
        return e

    def unary(self, nostruct):
        if self.peek() == "!":
            self.eat()
            return ("not", self.unary(nostruct))
        if self.peek() in ("*", "&"):      # deref / borrow: transparent
            self.eat()
            if self.peek() == "mut":
                self.eat()
            return self.unary(nostruct)
        return self.postfix(self.atom(nostruct))

    def postfix(self, e):
        while self.peek() in (".", "["):
            if self.eat() == "[":
                i = self.expr()
                self.eat("]")
                e = ("index", e, i)
                continue
            name = self.eat()
            if self.peek() == "(":
                e = ("mcall", e, name, self.args())
            else:
                e = ("field", e, name)
        return e

    def block(self):
        """`{ stmts }`: a statement list whose last element may be a ("tail", e)"""
        self.eat("{")
        b = self.stmts()
        self.eat("}")
        return b

    def args(self):
        self.eat("(")
        a = []
        while self.peek() != ")":
            a.append(self.expr())
            if self.peek() == ",":
                self.eat()
        self.eat(")")
        return a

    def atom(self, nostruct):
        k, v = self.kind(), self.peek()
        if k == "int":
            self.eat()
            m = re.match(r"([\d_]+)(?:\.[\d_]*)?([a-z]\w*)?$", v)
            if "." in v or (m.group(2) or "").startswith("f"):
                fm = re.match(r"([\d_]+)(?:\.([\d_]*))?(f32|f64)?$", v)
                frac = (fm.group(2) or "").replace("_", "").strip("0") if fm else "x"
                if not fm or frac != "":
                    raise Fail(f"float literal {v} outside the translated subset (only float literals with an integral value)")
                return ("int", int(fm.group(1).replace("_", "")), fm.group(3) or "float")
            return ("int", int(m.group(1).replace("_", "")), m.group(2))
        if k == "str":
            self.eat()
            return ("str", v)
        if v == "|":
            self.eat()
            ps = []
            while self.peek() != "|":
                if self.peek() == "&":
                    self.eat()
                ps.append(self.eat())
                if self.peek() == ",":
                    self.eat()
            self.eat("|")
            return ("closure", ps, self.expr())
        if v == "(":
            self.eat()
            items = []
            while self.peek() != ")":
                items.append(self.expr())
                if self.peek() == ",":
                    self.eat()
            self.eat(")")
            return items[0] if len(items) == 1 else ("tuple", items)
        if v == "match":
            self.eat()
            scrut = self.expr(nostruct=True)
            self.eat("{")
            arms = []
            while self.peek() != "}":
                pat = self.pattern()
                self.eat("=>")
                body = self.block_or_expr()
                arms.append((pat, body))
                if self.peek() == ",":
                    self.eat()
            self.eat("}")
            return ("match", scrut, arms)
        if v == "if":
            self.eat()
            if self.peek() == "let":
                self.eat()
                pat = self.pattern()
                self.eat("=")
                scrut = self.expr(nostruct=True)
                a = self.block()
                self.eat("else")
                b = self.block()
                return ("ifletx", pat, scrut, a, b)
            c = self.expr(nostruct=True)
            a = self.block()
            self.eat("else")
            b = self.block()
            if len(a) == 1 and a[0][0] == "tail" and len(b) == 1 and b[0][0] == "tail":
                return ("ife", c, a[0][1], b[0][1])
            return ("ifx", c, a, b)
        if k == "id":
            self.eat()
            path = [v]
            while self.peek() == "::":
                self.eat()
                path.append(self.eat())
            if self.peek() == "(":
                return ("call", path, self.args())
            if self.peek() == "!" and self.peek(1) == "(" and len(path) == 1:
                self.eat()
                return ("macro", v, self.args())
            if len(path) == 1:
                return ("var", v)
            return ("path", path)
        raise Fail(f"unexpected token {v!r}")

    def pattern(self):
        k = self.kind()
        v = self.eat()
        if v == "(":
            ps = []
            while self.peek() != ")":
                ps.append(self.pattern())
                if self.peek() == ",":
                    self.eat()
            self.eat(")")
            return ("ptuple", ps)
        if k == "int":
            return ("pint", int(re.match(r"[\d_]+", v).group(0).replace("_", "")))
        if v in ("true", "false", "_", "None"):
            return ("plit", v)
        if k == "id" and v != "Some" and self.peek() not in ("::", "("):
            return ("pvar", v)
        if v == "Some":
            self.eat("(")
            x = self.eat()
            self.eat(")")
            return ("psome", x)
        if self.peek() == "::":
            path = [v]
            while self.peek() == "::":
                self.eat()
                path.append(self.eat())
            binders = []
            if self.peek() == "(":
                self.eat()
                while self.peek() != ")":
                    binders.append(self.eat())
                    if self.peek() == ",":
                        self.eat()
                self.eat(")")
            return ("penum", path, binders)
        raise Fail(f"pattern {v!r} outside the translated subset")

    def block_expr(self):
        """`{ expr }` used as an expression"""
        self.eat("{")
        e = self.expr()
        self.eat("}")
        return e

    def block_or_expr(self):
        if self.peek() == "{":
            return self.block_expr()
        return self.expr()

    # ------------------------------------------------------------ statements
    def stmts(self):
        out = []
        while self.peek() is not None and self.peek() != "}":
            out.append(self.stmt())
        return out

    def stmt(self):
        v = self.peek()
        if v == "let":
            self.eat()
            if self.peek() == "mut":
                self.eat()
            if self.peek() == "(":
                self.eat()
                names = []
                while self.peek() != ")":
                    if self.peek() == "mut":
                        self.eat()
                    names.append(self.eat())
                    if self.peek() == ",":
                        self.eat()
                self.eat(")")
                self.eat("=")
                e = self.expr()
                self.eat(";")
                return ("lettuple", names, e)
            name = self.eat()
            if self.peek() == ":":
                self.eat()
                self.eat()
            self.eat("=")
            e = self.expr()
            self.eat(";")
            return ("let", name, e)
        if v == "return":
            self.eat()
            if self.peek() == ";":
                self.eat()
                return ("return", None)
            e = self.expr()
            if self.peek() == ";":
                self.eat()
            return ("return", e)
        if v == "match":
            save = self.i
            self.eat()
            scrut = self.expr(nostruct=True)
            self.eat("{")
            arms = []
            while self.peek() != "}":
                pat = self.pattern()
                self.eat("=>")
                if self.peek() == "{":
                    body = self.block()
                else:
                    body = [("exprstmt", self.expr())]
                arms.append((pat, body))
                if self.peek() == ",":
                    self.eat()
            self.eat("}")
            if all(a[0][0] == "penum" for a in arms):
                return ("matchstmt", scrut, arms)
            self.i = save       # not an enum match: an ordinary expression
        if v == "if":
            self.eat()
            if self.peek() == "let":
                self.eat()
                pat = self.pattern()
                self.eat("=")
                scrut = self.expr(nostruct=True)
                self.eat("{")
                body = self.stmts()
                self.eat("}")
                if self.peek() == "else":
                    raise Fail("if-let with else outside the translated subset")
                return ("iflet", pat, scrut, body)
            c = self.expr(nostruct=True)
            self.eat("{")
            a = self.stmts()
            self.eat("}")
            b = None
            if self.peek() == "else":
                self.eat()
                if self.peek() == "if":
                    b = [self.stmt()]          # else if ...: a block holding one `if` statement
                else:
                    self.eat("{")
                    b = self.stmts()
                    self.eat("}")
            return ("if", c, a, b)
        e = self.expr()
        if self.peek() in ("/", "%", "+", "-", "*") and self.peek(1) == "=":
            op = self.eat()
            self.eat("=")
            r = self.expr()
            self.eat(";")
            return ("assign", e, ("bin", op, e, r))
        if self.peek() == "=":
            self.eat()
            r = self.expr()
            self.eat(";")
            return ("assign", e, r)
        if self.peek() == ";":
            self.eat()
            return ("exprstmt", e)
        return ("tail", e)


# ---------------------------------------------------------------- source access
def strip_comments(s):
    return re.sub(r"//[^\n]*", "", s)


def find_struct(src, name):
    m = re.search(r"struct\s+" + name + r"\s*\{([^}]*)\}", src)
    if not m:
        raise Fail(f"struct {name} not found")
    fields = []
    for line in strip_comments(m.group(1)).split(","):
        line = line.strip()
        if not line:
            continue
        fm = re.match(r"(?:pub(?:\([^)]*\))?\s+)?(\w+)\s*:\s*(.+)$", line, flags=re.S)
        if not fm:
            raise Fail(f"struct {name}: field not understood: {line!r}")
        fields.append((fm.group(1), fm.group(2).strip()))
    return fields


def find_fn(src, impl, fn):
    m = re.search(r"impl(?:<[^>]*>)?\s+" + impl + r"\s*\{", src)
    if not m:
        raise Fail(f"impl {impl} not found")
    rest = src[m.end():]
    m = re.search(r"fn\s+" + fn + r"\s*\(([^)]*)\)\s*(?:->\s*([^{]+?))?\s*\{", rest)
    if not m:
        raise Fail(f"fn {impl}::{fn} not found")
    i, depth = m.end(), 1
    while depth and i < len(rest):
        depth += {"{": 1, "}": -1}.get(rest[i], 0)
        i += 1
    params = []
    for p in m.group(1).split(","):
        p = p.strip()
        if p in ("&self", "&mut self", "self", "mut self", ""):
            continue
        pm = re.match(r"(?:mut\s+)?(\w+)\s*:\s*(.+)$", p)
        if not pm:
            raise Fail(f"{impl}::{fn}: parameter not understood: {p!r}")
        params.append((pm.group(1), pm.group(2).strip()))
    return params, (m.group(2) or "()").strip(), rest[m.end():i - 1]


def find_const(src, name, nth=0):
    ms = list(re.finditer(r"const\s+" + name + r"\s*:\s*(\w+)\s*=\s*([^;]+);", src))
    if len(ms) <= nth:
        raise Fail(f"const {name} not found")
    return ms[nth].group(1), ms[nth].group(2).strip()


# ---------------------------------------------------------------- code generation
def lean_ty(t):
    return "Nat"


class Gen:
    """compiles one function body. env: rust name -> (lean name, type)"""

    def __init__(self, struct, fields, consts, ignore_calls, field_map=None):
        self.struct, self.fields, self.consts, self.ignore = struct, dict(fields), consts, ignore_calls
        self.inline, self.inline_expr, self.default_of, self.enums, self.free_fns = {}, {}, {}, {}, {}
        self.fvar = "o"
        self.return_hook = None
        self.field_map = field_map or {}

    def ftype(self, f):
        t = self.fields.get(f)
        if t is None:
            raise Fail(f"{self.struct}: unknown field {f}")
        t = ATOMIC.get(t, t)
        m = re.match(r"Option<(\w+)>$", t)
        if m:
            return ("opt", m.group(1))
        return t

    def width(self, t):
        return INT_T.get(t)

    FLOATS = ("f32", "f64", "float")

    def fl(self, name):
        """the operation `name` of the arithmetic floats are translated into (`Estimator.Ops` as `o`, or `BarGeo.Arith` as `A`)"""
        return f"{self.fvar}.{name}"

    def join_ty(self, a, b, what):
        if a in self.FLOATS and b in self.FLOATS:
            return a if a != "float" else b
        if a is None:
            return b
        if b is None or a == b:
            return a
        if {a, b} <= {"Instant", "Duration"} or "Duration" in (a, b):
            return a
        raise Fail(f"operands of {what} have different types {a} / {b}")

    def expr(self, e, env):
        """returns (guards, term, type)"""
        k = e[0]
        if k == "int":
            if e[2] in self.FLOATS:
                return [], (self.fl("zero") if e[1] == 0 else self.fl("one") if e[1] == 1 else f"({self.fl('ofNat')} {e[1]})"), e[2]
            return [], str(e[1]), e[2]
        if k == "var":
            n = e[1]
            if n in ("true", "false"):
                return [], n, "bool"
            if n == "None":
                return [], "none", ("opt", None)
            if n in env:
                return [], env[n][0], env[n][1]
            if n in self.consts:
                return [], self.consts[n][0], self.consts[n][1]
            raise Fail(f"unknown name {n}")
        if k == "path":
            raise Fail(f"path {'::'.join(e[1])} outside the translated subset")
        if k == "field":
            base, f = e[1], e[2]
            if base == ("var", "self"):
                if ("self." + f) not in env:
                    raise Fail(f"self.{f} is not a translated field of {self.struct}")
                return [], env["self." + f][0], env["self." + f][1]
            # self.state.len  (one level of nesting, mapped by field_map)
            if base[0] == "field" and base[1] == ("var", "self"):
                key = f"self.{base[2]}.{f}"
                if key in env:
                    return [], env[key][0], env[key][1]
            raise Fail(f"field access {e} outside the translated subset")
        if k == "index":
            try:
                lk = self.lhs_key(e[1]) + ".len"
            except Fail:
                lk = None
            if lk not in env:
                raise Fail("indexing outside the translated subset")
            g, t, ty = self.expr(e[2], env)
            return g + [f"{t} < {env[lk][0]}"], t, "index"      # out of bounds panics
        if k == "cast":
            g, t, ty = self.expr(e[1], env)
            to = e[2]
            if to in ("f64", "f32") and self.width(ty) is not None:
                return g, f"({self.fl('ofNat')} {t})", to        # integer to float (rounding is the instance's business)
            if ty in self.FLOATS and to in INT_T:
                return g, f"({self.fl('trunc')} {t})", to        # float to integer: toward zero, saturating
            if to not in INT_T:
                raise Fail(f"cast to {to} outside the translated subset")
            w0, w1 = self.width(ty), INT_T[to]
            if w0 is not None and w0 <= w1:
                return g, t, to            # widening: identity on in-range values
            return g, f"({t} % 2 ^ {w1})", to
        if k == "not":
            g, t, ty = self.expr(e[1], env)
            return g, f"(¬ {t})", "bool"
        if k == "tuple":
            gs, ts, tys = [], [], []
            for x in e[1]:
                g, t, ty = self.expr(x, env)
                gs += g
                ts.append(t)
                tys.append(ty)
            return gs, "(" + ", ".join(ts) + ")", ("tuple", tys)
        if k == "bin":
            op = e[1]
            ga, a, ta = self.expr(e[2], env)
            gb, b, tb = self.expr(e[3], env)
            g = ga + gb
            if op in ("&&", "||"):
                return g, f"({a} {'∧' if op == '&&' else '∨'} {b})", "bool"
            if op in ("==", "!=", "<", "<=", ">", ">="):
                lop = {"==": "=", "!=": "≠", "<": "<", "<=": "≤", ">": ">", ">=": "≥"}[op]
                jt = self.join_ty(ta, tb, op)
                if jt in self.FLOATS:
                    if op == "<":
                        return g, f"({self.fl('lt')} {a} {b} = true)", "bool"
                    if op == ">":
                        return g, f"({self.fl('lt')} {b} {a} = true)", "bool"
                    raise Fail(f"comparison {op} on floats outside the translated subset")
                return g, f"({a} {lop} {b})", "bool"
            ty = self.join_ty(ta, tb, op)
            if ty in self.FLOATS:
                fop = {"+": "add", "-": "sub", "*": "mul", "/": "div"}.get(op)
                if fop is None:
                    raise Fail(f"operator {op} on floats")
                return g, f"({self.fl(fop)} {a} {b})", ty      # floating point never panics
            w = self.width(ty)
            if op == "+":
                if w is not None:
                    g = g + [f"{a} + {b} < 2 ^ {w}"]
                elif ty == "Instant":
                    g = g + [f"{a} + {b} < 2 ^ 64"]
                return g, f"({a} + {b})", ty
            if op == "*":
                if w is not None:
                    g = g + [f"{a} * {b} < 2 ^ {w}"]
                return g, f"({a} * {b})", ty
            if op == "-":
                if ta == "Instant" and tb == "Instant":
                    return g, f"({a} - {b})", "Duration"       # saturating
                return g + [f"{b} ≤ {a}"], f"({a} - {b})", ty
            if op in ("/", "%"):
                if re.fullmatch(r"\d+", b) and int(b) > 0:
                    return g, f"({a} {op} {b})", ty      # a non-zero literal divisor cannot panic
                return g + [f"0 < {b}"], f"({a} {op} {b})", ty
            raise Fail(f"operator {op}")
        if k == "call":
            path, args = e[1], e[2]
            name = "::".join(path)
            if name in ("Ord::min", "usize::min", "u64::min") and len(args) == 2:
                ga, a, ta = self.expr(args[0], env)
                gb, b, tb = self.expr(args[1], env)
                return ga + gb, f"(min {a} {b})", self.join_ty(ta, tb, "min")
            if len(path) == 2 and path[1] == "default" and not args and path[0] in self.default_of:
                return [], self.default_of[path[0]][0], self.default_of[path[0]][1]
            if name == "Duration::from_nanos" and len(args) == 1:
                g, t, ty = self.expr(args[0], env)
                return g, t, "Duration"
            if name == "f64::from" and len(args) == 1:
                g, t, ty = self.expr(args[0], env)
                if self.width(ty) is None:
                    raise Fail("f64::from on a non-integer")
                return g, f"({self.fl('ofNat')} {t})", "f64"
            if name in ("usize::from", "u64::from") and len(args) == 1:
                g, t, ty = self.expr(args[0], env)
                if ty == "bool":
                    return g, f"(if {t} then 1 else 0)", name.split(":")[0]
                raise Fail(f"{name} on {ty}")
            if name in self.free_fns and len(args) == len(self.free_fns[name][1]):
                gs, ts = [], []
                for a in args:
                    g, t, ty = self.expr(a, env)
                    gs += g
                    ts.append(t)
                return gs, f"({self.free_fns[name][0]} {' '.join(ts)})", self.free_fns[name][2]
            if name == "Some" and len(args) == 1:
                g, t, ty = self.expr(args[0], env)
                return g, f"(some {t})", ("opt", ty)
            if name in ("usize::max", "u64::max", "u32::max") and len(args) == 2:
                ga, a, ta = self.expr(args[0], env)
                gb, b, tb = self.expr(args[1], env)
                return ga + gb, f"(max {a} {b})", self.join_ty(ta, tb, "max")
            raise Fail(f"call {name} outside the translated subset")
        if k == "mcall":
            recv, m, args = e[1], e[2], e[3]
            if recv == ("var", "self") and m in self.inline_expr and not args:
                params, ret, body = self.inline_expr[m]
                st = P(lex(body)).stmts()
                if params or len(st) != 1 or st[0][0] != "tail":
                    raise Fail(f"cannot inline self.{m}() as an expression")
                return self.expr(st[0][1], env)
            if m == "len" and not args and recv[0] == "field":
                try:
                    lk = self.lhs_key(recv) + ".len"
                except Fail:
                    lk = None
                if lk in env:
                    return [], env[lk][0], env[lk][1]
            if m == "len" and not args:
                g, t, ty = self.expr(recv, env)
                if not (isinstance(ty, tuple) and ty[0] == "vec"):
                    raise Fail(f"len() on {ty}")
                return g, f"{t}.length", "usize"
            if m == "contains" and len(args) == 1:
                g, t, ty = self.expr(recv, env)
                ga, a, ta = self.expr(args[0], env)
                if not (isinstance(ty, tuple) and ty[0] == "vec"):
                    raise Fail(f"contains() on {ty}")
                return g + ga, f"({a} ∈ {t})", "bool"
            if (m == "unwrap" and not args and recv[0] == "mcall" and recv[2] == "position" and len(recv[3]) == 1
                    and recv[1][0] == "mcall" and recv[1][2] == "iter"):
                # v.iter().position(|i| *i == x).unwrap(): index of the first element equal to x; panics when there is none
                g, t, ty = self.expr(recv[1][1], env)
                cl = recv[3][0]
                if not (cl[0] == "closure" and len(cl[1]) == 1 and cl[2][0] == "bin" and cl[2][1] == "=="
                        and ("var", cl[1][0]) in (cl[2][2], cl[2][3])):
                    raise Fail("position(closure): closure outside the translated subset")
                other = cl[2][3] if cl[2][2] == ("var", cl[1][0]) else cl[2][2]
                ga, a, ta = self.expr(other, env)
                return g + ga + [f"{a} ∈ {t}"], f"({t}.idxOf {a})", "usize"
            if m == "load" and len(args) == 1:
                return self.expr(recv, env)
            if m == "as_secs" and not args and recv == ("field", ("var", "self"), "0") and "self.0.as_secs" in env:
                return [], env["self.0.as_secs"][0], env["self.0.as_secs"][1]
            if m in ("as_secs", "subsec_nanos") and not args:
                g, t, ty = self.expr(recv, env)
                if ty != "Duration":
                    raise Fail(f"{m} on {ty}")
                return (g, f"({t} / 1000000000)", "u64") if m == "as_secs" else (g, f"({t} % 1000000000)", "u32")
            if m == "as_nanos" and not args:
                g, t, ty = self.expr(recv, env)
                if ty != "Duration":
                    raise Fail(f"as_nanos on {ty}")
                return g, t, "u128"
            if m in ("saturating_sub", "saturating_add", "saturating_duration_since", "duration_since") and len(args) == 1:
                ga, a, ta = self.expr(recv, env)
                gb, b, tb = self.expr(args[0], env)
                if m == "saturating_add":
                    w = self.width(self.join_ty(ta, tb, m))
                    if w is None:
                        raise Fail("saturating_add on a non-integer")
                    return ga + gb, f"(min ({a} + {b}) (2 ^ {w} - 1))", ta
                ty = "Duration" if m.endswith("duration_since") else ta
                return ga + gb, f"({a} - {b})", ty
            if m == "unwrap" and not args and recv[0] == "mcall" and recv[2] == "checked_sub":
                ga, a, ta = self.expr(recv[1], env)
                gb, b, tb = self.expr(recv[3][0], env)
                return ga + gb + [f"{b} ≤ {a}"], f"({a} - {b})", ta
            if m == "into" and not args:
                return self.expr(recv, env)
            if m == "fract" and not args:
                g, t, ty = self.expr(recv, env)
                if ty not in self.FLOATS:
                    raise Fail(f"fract on {ty}")
                return g, f"({self.fl('fract')} {t})", ty
            if m == "clamp" and len(args) == 2:
                g, t, ty = self.expr(recv, env)
                g1, lo, t1 = self.expr(args[0], env)
                g2, hi, t2 = self.expr(args[1], env)
                if ty not in self.FLOATS:
                    raise Fail(f"clamp on {ty}")
                return g + g1 + g2, f"(if {self.fl('lt')} {t} {lo} = true then {lo} else if {self.fl('lt')} {hi} {t} = true then {hi} else {t})", ty
            raise Fail(f"method {m} outside the translated subset")
        if k == "macro" and e[1] == "write" and len(e[2]) == 2 and e[2][1][0] == "str":
            return [], self.fmt_pieces(e[2][1][1][1:-1], env), "fmt"
        if k == "match":
            gs, s, ty = self.expr(e[1], env)
            arms = e[2]
            pats = [a[0] for a in arms]
            if pats == [("plit", "true"), ("plit", "false")]:
                g1, t1, ty1 = self.expr(arms[0][1], env)
                g2, t2, ty2 = self.expr(arms[1][1], env)
                # a guard inside an arm only applies when that arm is taken
                gs = gs + [f"({s} → {x})" for x in g1] + [f"(¬ {s} → {x})" for x in g2]
                return gs, f"(if {s} then {t1} else {t2})", ty1
            if all(p[0] == "penum" and not p[2] for p in pats) and ty in self.enums:
                if sorted(p[1][1] for p in pats) != sorted(v for v, _ in self.enums[ty]) or any(p[1][0] != ty for p in pats):
                    raise Fail(f"match on {ty} is not exhaustive over its declared variants")
                out, rty = [], None
                for pat, body in arms:
                    gb, tb2, tyb = self.expr(body, env)
                    gs = gs + [f"({s} = .{pat[1][1]} → {x})" for x in gb]     # a guard inside an arm applies when that arm is taken
                    rty = tyb if rty is None else rty
                    out.append(f"| .{pat[1][1]} => {tb2}")
                return gs, f"(match {s} with {' '.join(out)})", rty
            if all(p[0] == "ptuple" for p in pats) and e[1][0] == "tuple" and all(len(p[1]) == len(e[1][1]) for p in pats):
                scr = [self.expr(x, env) for x in e[1][1]]
                gs = [g for (g, _, _) in scr for g in g]
                out, rty = [], None
                for pat, body in arms:
                    env_a, lp = dict(env), []
                    for sub, (_, st, sty) in zip(pat[1], scr):
                        if sub == ("plit", "_"):
                            lp.append("_")
                        elif sub[0] == "pint":
                            lp.append(str(sub[1]))
                        elif sub == ("plit", "None"):
                            lp.append("none")
                        elif sub[0] == "psome":
                            inner = sub[1]
                            if re.fullmatch(r"\d+", inner):
                                lp.append(f"(some {inner})")
                            else:
                                lp.append(f"(some {inner})")
                                env_a[inner] = (inner, sty[1] if isinstance(sty, tuple) else None)
                        elif sub[0] == "pvar":
                            lp.append(sub[1])
                            env_a[sub[1]] = (sub[1], sty)
                        else:
                            raise Fail(f"tuple sub-pattern {sub} outside the translated subset")
                    gb, tb2, tyb = self.expr(body, env_a)
                    if gb:
                        raise Fail("panicking expression inside a tuple-match arm")
                    rty = self.join_ty(rty, tyb, "match") if rty else tyb
                    out.append(f"| {', '.join(lp)} => {tb2}")
                return gs, f"(match {', '.join(t for (_, t, _) in scr)} with {' '.join(out)})", rty
            raise Fail("match outside the translated subset")
        if k == "ife":
            gs, s, ty = self.expr(e[1], env)
            g1, t1, ty1 = self.expr(e[2], env)
            g2, t2, ty2 = self.expr(e[3], env)
            gs = gs + [f"({s} → {x})" for x in g1] + [f"(¬ {s} → {x})" for x in g2]
            return gs, f"(if {s} then {t1} else {t2})", ty1
        raise Fail(f"expression {k} outside the translated subset")

    def guard(self, guards, body, ind):
        if not guards:
            return body
        return f"{ind}if ({' ∧ '.join(guards)}) then\n{body}\n{ind}else none"

    def ret(self, val, env, ind):
        if self.out_fields is None:
            return f"{ind}{val}"
        if self.out_fields == "opt":
            return f"{ind}some {val}"
        st = ", ".join(f"{f} := {env[k][0]}" for k, f in self.out_fields)
        return f"{ind}some ({val}, {{ {st} }})"

    def block(self, stmts, env, ind, cont):
        """compiles a statement list; `cont(env, ind)` produces what follows when the list falls through"""
        if not stmts:
            return cont(env, ind)
        s, rest = stmts[0], stmts[1:]
        k = s[0]
        nxt = lambda env2, ind2=ind: self.block(rest, env2, ind2, cont)
        if k == "let" and s[2][0] in ("ifletx", "ifx"):
            # `let x = if [let P = E] { stmts; tail } else { stmts; tail };` -- both branches continue with the rest
            name, rhs = s[1], s[2]
            def finish(blk, env_b, ind_b):
                if not blk or blk[-1][0] != "tail":
                    raise Fail("block used as a value has no tail expression")
                def k_tail(e3, i3):
                    g, t, ty = self.expr(blk[-1][1], e3)
                    e4 = dict(e3)
                    for key in list(e4):
                        if key not in env and not key.startswith("self."):
                            del e4[key]          # names local to the branch go out of scope
                    e4[name] = (name, ty)
                    return self.guard(g, f"{i3}let {name} := {t}\n" + self.block(rest, e4, i3, cont), i3)
                return self.block(blk[:-1], env_b, ind_b, k_tail)
            if rhs[0] == "ifx":
                g, c, ty = self.expr(rhs[1], env)
                return self.guard(g, f"{ind}if {c} then\n{finish(rhs[2], env, ind + '  ')}\n{ind}else\n{finish(rhs[3], env, ind + '  ')}", ind)
            pat, scrut = rhs[1], rhs[2]
            if pat[0] != "psome":
                raise Fail("if-let pattern outside the translated subset")
            if scrut[0] == "mcall" and scrut[2] == "pop" and not scrut[3]:
                # Vec::pop(): the last element, removed
                key = self.lhs_key(scrut[1])
                ln, vty = env[key]
                if not (isinstance(vty, tuple) and vty[0] == "vec"):
                    raise Fail("pop() on a non-Vec")
                env_a = dict(env)
                env_a[pat[1]] = (pat[1], vty[1])
                ta = f"{ind}    let {ln} := {ln}.dropLast\n" + finish(rhs[3], env_a, ind + "    ")
                tb = finish(rhs[4], env, ind + "    ")
                return f"{ind}(match {ln}.getLast? with\n{ind}  | some {pat[1]} =>\n{ta}\n{ind}  | none =>\n{tb})"
            raise Fail("if-let expression outside the translated subset")
        if k == "matchstmt":
            g, t, ty = self.expr(s[1], env)
            if ty not in self.enums:
                raise Fail(f"match on {ty}")
            arms = []
            for pat, body in s[2]:
                if pat[1][0] != ty or pat[1][1] not in dict(self.enums[ty]):
                    raise Fail(f"pattern {pat[1]} is not a variant of {ty}")
                fields = dict(self.enums[ty])[pat[1][1]]
                if len(fields) != len(pat[2]):
                    raise Fail(f"pattern {pat[1]}: arity")
                env_a = dict(env)
                for b, ft in zip(pat[2], fields):
                    env_a[b] = (b, ft)
                def k_arm(e3, i3, binders=tuple(pat[2])):
                    e4 = dict(e3)
                    for key in list(e4):
                        if key not in env and not key.startswith("self."):
                            del e4[key]
                    return self.block(rest, e4, i3, cont)
                arms.append(f"{ind}  | .{pat[1][1]}{''.join(' ' + b for b in pat[2])} =>\n" + self.block(body, env_a, ind + "    ", k_arm))
            if sorted(p[1][1] for p, _ in s[2]) != sorted(v for v, _ in self.enums[ty]):
                raise Fail(f"match on {ty} is not exhaustive over the declared variants")
            return self.guard(g, f"{ind}(match {t} with\n" + "\n".join(arms) + ")", ind)
        if k == "let":
            g, t, ty = self.expr(s[2], env)
            env2 = dict(env)
            env2[s[1]] = (lean_id(s[1]), ty)
            return self.guard(g, f"{ind}let {lean_id(s[1])} := {t}\n" + nxt(env2), ind)
        if k == "lettuple":
            g, t, ty = self.expr(s[2], env)
            if not (isinstance(ty, tuple) and ty[0] == "tuple" and len(ty[1]) == len(s[1])):
                raise Fail("tuple pattern against a non-tuple")
            env2 = dict(env)
            for n, tt in zip(s[1], ty[1]):
                env2[n] = (lean_id(n), tt)
            if len(s[1]) != 2:
                raise Fail("only pairs are destructured")
            tmp = "p_" + "_".join(s[1])
            return self.guard(g, f"{ind}let {tmp} := {t}\n{ind}let {lean_id(s[1][0])} := {tmp}.1\n{ind}let {lean_id(s[1][1])} := {tmp}.2\n" + nxt(env2), ind)
        if k == "assign" and s[1][0] == "index":
            # v[i] = e : panics when i is out of bounds
            key = self.lhs_key(s[1][1])
            ln, vty = env[key]
            gi, i, ti = self.expr(s[1][2], env)
            g, t, ty = self.expr(s[2], env)
            return self.guard(gi + g + [f"{i} < {ln}.length"], f"{ind}let {ln} := {ln}.set {i} {t}\n" + nxt(dict(env)), ind)
        if k == "assign":
            key = self.lhs_key(s[1])
            g, t, ty = self.expr(s[2], env)
            env2 = dict(env)
            ln = env[key][0]
            env2[key] = (ln, env[key][1])
            return self.guard(g, f"{ind}let {ln} := {t}\n" + nxt(env2), ind)
        if k == "exprstmt":
            e = s[1]
            if e[0] == "mcall" and e[2] == "store" and len(e[3]) == 2:
                key = self.lhs_key(e[1])
                g, t, ty = self.expr(e[3][0], env)
                env2 = dict(env)
                env2[key] = env[key]
                return self.guard(g, f"{ind}let {env[key][0]} := {t}\n" + nxt(env2), ind)
            if e[0] == "macro" and e[1] in ("assert_eq", "assert") :
                args = [a for a in e[2] if a[0] != "str"]
                if e[1] == "assert_eq" and len(args) == 2:
                    ga, a, ta = self.expr(args[0], env)
                    gb, b, tb = self.expr(args[1], env)
                    return self.guard(ga + gb + [f"{a} = {b}"], nxt(env), ind)
                if e[1] == "assert" and len(args) == 1:
                    ga, a, ta = self.expr(args[0], env)
                    return self.guard(ga + [a], nxt(env), ind)
                raise Fail(f"{e[1]}! with {len(args)} arguments")
            if e[0] == "mcall" and e[2] in ("push", "insert", "retain") and self.is_vec(e[1], env):
                key = self.lhs_key(e[1])
                ln, vty = env[key]
                if e[2] == "push" and len(e[3]) == 1:
                    g, t, ty = self.expr(e[3][0], env)
                    return self.guard(g, f"{ind}let {ln} := {ln} ++ [{t}]\n" + nxt(dict(env)), ind)
                if e[2] == "insert" and len(e[3]) == 2:
                    # Vec::insert(i, x): panics when i > len
                    gi, i, ti = self.expr(e[3][0], env)
                    g, t, ty = self.expr(e[3][1], env)
                    return self.guard(gi + g + [f"{i} ≤ {ln}.length"], f"{ind}let {ln} := {ln}.take {i} ++ [{t}] ++ {ln}.drop {i}\n" + nxt(dict(env)), ind)
                if e[2] == "retain" and len(e[3]) == 1:
                    cl = e[3][0]
                    if not (cl[0] == "closure" and len(cl[1]) == 1 and cl[2][0] == "bin" and cl[2][1] == "!=" and cl[2][2] == ("var", cl[1][0])):
                        raise Fail("retain(closure): closure outside the translated subset")
                    g, t, ty = self.expr(cl[2][3], env)
                    return self.guard(g, f"{ind}let {ln} := {ln}.filter (· ≠ {t})\n" + nxt(dict(env)), ind)
            if e[0] == "mcall" and e[2] in ("fetch_add", "fetch_sub") and len(e[3]) == 2:
                # atomic read-modify-write on an unsigned integer: wraps, never panics; the fetched value is discarded
                key = self.lhs_key(e[1])
                w = self.width(env[key][1])
                g, t, ty = self.expr(e[3][0], env)
                if w is None:
                    raise Fail(f"{e[2]} on a non-integer")
                val = f"(({env[key][0]} + {t}) % 2 ^ {w})" if e[2] == "fetch_add" else f"(({env[key][0]} + 2 ^ {w} - {t}) % 2 ^ {w})"
                return self.guard(g, f"{ind}let {env[key][0]} := {val}\n" + nxt(dict(env)), ind)
            if e[0] == "mcall" and e[1] == ("var", "self") and e[2] in self.ignore:
                return nxt(env)
            if e[0] == "mcall" and e[1] == ("var", "self") and e[2] in self.inline:
                # a unit method of the same impl without early return: bind the parameters, continue with its body
                params, ret, body = self.inline[e[2]]
                if ret != "()" or len(params) != len(e[3]):
                    raise Fail(f"cannot inline self.{e[2]}")
                callee = P(lex(body)).stmts()
                if any(st[0] in ("return", "tail") for st in callee):
                    raise Fail(f"cannot inline self.{e[2]}: it returns a value")
                env2, pre, gs = dict(env), "", []
                for (pn, pt), a in zip(params, e[3]):
                    g, t, ty = self.expr(a, env)
                    gs += g
                    ln = f"{e[2]}_{pn}"
                    pre += f"{ind}let {ln} := {t}\n"
                    env2[pn] = (ln, pt)
                saved = {k: env.get(k) for k, _ in [(pn, None) for pn, _ in params]}
                def after(e3, i3):
                    e4 = dict(e3)
                    for k, v in saved.items():
                        if v is None: e4.pop(k, None)
                        else: e4[k] = v
                    return self.block(rest, e4, i3, cont)
                return self.guard(gs, pre + self.block(callee, env2, ind, after), ind)
            raise Fail(f"statement outside the translated subset: {e}")
        if k == "return" and s[1] is None:
            return self.ret("()", env, ind)
        if k == "return" and self.return_hook is not None and self.return_hook(self, s[1], env) is not None:
            g, t = self.return_hook(self, s[1], env)
            return self.guard(g, self.ret(t, env, ind), ind)
        if k == "return":
            g, t, ty = self.expr(s[1], env)
            return self.guard(g, self.ret(t, env, ind), ind)
        if k == "tail":
            if rest:
                raise Fail("expression statement without `;` in the middle of a block")
            g, t, ty = self.expr(s[1], env)
            return self.guard(g, self.ret(t, env, ind), ind)
        if k == "if":
            g, c, ty = self.expr(s[1], env)
            a, b = s[2], s[3]
            # both branches continue with `rest` when they fall through
            ta = self.block(a, env, ind + "  ", lambda e2, i2: self.block(rest, e2, i2, cont))
            tb = self.block(b or [], env, ind + "  ", lambda e2, i2: self.block(rest, e2, i2, cont))
            return self.guard(g, f"{ind}if {c} then\n{ta}\n{ind}else\n{tb}", ind)
        if k == "iflet":
            pat, scrut, body = s[1], s[2], s[3]
            if pat[0] != "psome":
                raise Fail("if-let pattern outside the translated subset")
            g, t, ty = self.expr(scrut, env)
            if not (isinstance(ty, tuple) and ty[0] == "opt"):
                raise Fail("if let Some(..) on a non-Option")
            env2 = dict(env)
            env2[pat[1]] = (pat[1], ty[1])
            ta = self.block(body, env2, ind + "    ", lambda e2, i2: self.block(rest, e2, i2, cont))
            tb = self.block(rest, env, ind + "    ", cont)
            return self.guard(g, f"{ind}(match {t} with\n{ind}  | some {pat[1]} =>\n{ta}\n{ind}  | none =>\n{tb})", ind)
        raise Fail(f"statement {k} outside the translated subset")

    def fmt_pieces(self, f, env):
        """a Rust format string with inline integer arguments -> Lean list of `FmtPiece`"""
        out, i, lit = [], 0, ""
        def flush():
            nonlocal lit
            if lit:
                out.append(".lit [" + ", ".join("'" + (c if c not in "'\\" else "\\" + c) + "'" for c in lit) + "]")
                lit = ""
        while i < len(f):
            c = f[i]
            if c == "{" and f[i + 1:i + 2] == "{":
                lit += "{"; i += 2; continue
            if c == "}" and f[i + 1:i + 2] == "}":
                lit += "}"; i += 2; continue
            if c == "{":
                j = f.index("}", i)
                m = re.fullmatch(r"(\w+)(?::(0?)(\d+))?", f[i + 1:j])
                if not m or m.group(1) not in env or self.width(env[m.group(1)][1]) is None or (m.group(3) and m.group(2) != "0"):
                    raise Fail(f"format argument {f[i:j+1]!r} outside the translated subset")
                flush()
                out.append(f".num {env[m.group(1)][0]} {m.group(3) or 0}")
                i = j + 1
                continue
            if c == "\\":
                raise Fail("escape in a format string")
            lit += c
            i += 1
        flush()
        return "[" + ", ".join(out) + "]"

    def is_vec(self, e, env):
        try:
            key = self.lhs_key(e)
        except Fail:
            return False
        return key in env and isinstance(env[key][1], tuple) and env[key][1][0] == "vec"

    def lhs_key(self, e):
        if e[0] == "var":
            return e[1]
        if e[0] == "field" and e[1] == ("var", "self"):
            return "self." + e[2]
        if e[0] == "field" and e[1][0] == "field" and e[1][1] == ("var", "self"):
            return f"self.{e[1][2]}.{e[2]}"
        raise Fail(f"assignment target outside the translated subset: {e}")


def field_type(t):
    t = ATOMIC.get(t, t)
    m = re.match(r"Option<(\w+)>$", t)
    if m:
        return ("opt", m.group(1))
    m = re.match(r"Vec<(\w+)>$", t)
    if m:
        return ("vec", m.group(1))
    return t


def find_free_fn(src, fn):
    m = re.search(r"(?:^|\n)(?:pub(?:\([^)]*\))?\s+)?fn\s+" + fn + r"\s*\(([^)]*)\)\s*(?:->\s*([^{]+?))?\s*\{", src)
    if not m:
        raise Fail(f"fn {fn} not found")
    i, depth = m.end(), 1
    while depth and i < len(src):
        depth += {"{": 1, "}": -1}.get(src[i], 0)
        i += 1
    params = []
    for p in m.group(1).split(","):
        p = p.strip()
        if not p:
            continue
        pm = re.match(r"(?:mut\s+)?(\w+)\s*:\s*(.+)$", p)
        params.append((pm.group(1), pm.group(2).strip()))
    return params, (m.group(2) or "()").strip(), src[m.end():i - 1]


def translate_fn(src, impl, fn, lean_struct, fields, out_fields, consts, ignore=(), inline=(), inline_expr=(), default_of=None, enums=None,
                 generics="", free_fns=None):
    """fields: list of (rust key like 'self.capacity', lean field name, type). returns Lean source of the def"""
    params, ret, body = find_fn(src, impl, fn)
    g = Gen(impl, [], consts, set(ignore))
    g.out_fields = [(k, f) for k, f, _ in fields]
    g.inline = {m: find_fn(src, impl, m) for m in inline}
    g.inline_expr = {m: find_fn(src, impl, m) for m in inline_expr}
    g.default_of = default_of or {}
    g.enums = enums or {}
    g.free_fns = free_fns or {}
    env = {}
    lines = []
    for k, f, t in fields:
        ty = field_type(t)
        ln = "s_" + f
        env[k] = (ln, ty)
        lines.append(f"  let {ln} := self.{f}")
    ps = []
    for n, t in params:
        if t in INT_T or t in ("Instant", "Duration"):
            env[n] = (n, t)
            ps.append(f"({n} : Nat)")
        elif t == "f64":
            env[n] = (n, t)
            ps.append(f"({n} : α)")
        elif t in g.enums:
            env[n] = (n, t)
            ps.append(f"({n} : {t})")
        else:
            raise Fail(f"{impl}::{fn}: parameter type {t} outside the translated subset")
    stmts = P(lex(body)).stmts()
    retty = "Bool" if ret == "bool" else "Nat" if ret in INT_T else "α" if ret == "f64" else "Unit"
    fall = (lambda env2, ind: g.ret("()", env2, ind)) if ret == "()" else (lambda env2, ind: (_ for _ in ()).throw(Fail(f"{impl}::{fn}: control reaches the end of a non-unit function")))
    code = g.block(stmts, env, "  ", fall)
    name = f"{lean_struct}.{camel(fn)}"
    return (f"/-- `{impl}::{fn}` ({', '.join(n + ': ' + t for n, t in params)}) -> {ret} -/\n"
            f"def {name} {generics}(self : {lean_struct}) {' '.join(ps)} : Option ({retty} × {lean_struct}) :=\n" + "\n".join(lines) + "\n" + code + "\n")


def camel(s):
    parts = s.split("_")
    return parts[0] + "".join(p.capitalize() for p in parts[1:])


def const_value(src, name, nth=0):
    ty, val = find_const(src, name, nth)
    toks = lex(val)
    e = P(toks).expr()
    g = Gen("const", [], {}, set())
    gs, t, _ = g.expr(e, {})
    if gs:
        raise Fail(f"const {name}: guarded expression")
    return ty, t


def main():
    repo = sys.argv[1] if len(sys.argv) > 1 else os.environ.get("VERIF_REPO", "/repo")
    out = sys.argv[2]
    dt = open(os.path.join(repo, "src/draw_target.rs")).read()
    stt = open(os.path.join(repo, "src/state.rs")).read()
    o = []
    o.append("/-! GENERATED by tools/rs2lean.py from src/draw_target.rs and src/state.rs — do not edit.\n"
             "`none` = the Rust code panics; values are `Nat`; see the translator for the subset and its conventions. -/\n"
             "set_option linter.unusedVariables false\nnamespace IndicatifModel.Generated\n")
    # ---- constants
    ty, v = const_value(dt, "MAX_BURST")
    o.append(f"/-- `MAX_BURST: {ty}` of src/draw_target.rs -/\ndef drawMaxBurst : Nat := {v}\n")
    ty, v = const_value(stt, "MAX_BURST")
    o.append(f"/-- `MAX_BURST: {ty}` of src/state.rs -/\ndef posMaxBurst : Nat := {v}\n")
    ty, v = const_value(stt, "INTERVAL")
    o.append(f"/-- `INTERVAL: {ty}` of src/state.rs (nanoseconds) -/\ndef posInterval : Nat := {v}\n")
    # ---- RateLimiter
    rl = find_struct(dt, "RateLimiter")
    if [f for f, _ in rl] != ["interval", "capacity", "prev"]:
        raise Fail(f"struct RateLimiter has fields {rl}")
    o.append("structure RateLimiter where\n" + "".join(f"  {f} : Nat  -- {t}\n" for f, t in rl) + "deriving Repr, DecidableEq\n")
    fields = [("self." + f, f, t) for f, t in rl]
    consts = {"MAX_BURST": ("drawMaxBurst", find_const(dt, "MAX_BURST")[0])}
    o.append(translate_fn(dt, "RateLimiter", "allow", "RateLimiter", fields, None, consts))
    # RateLimiter::new: the interval expression
    params, ret, body = find_fn(dt, "RateLimiter", "new")
    m = re.search(r"interval\s*:\s*([^,]+),", strip_comments(body))
    if not m or params != [("rate", "u8")]:
        raise Fail("RateLimiter::new: interval initialiser not found")
    g = Gen("RateLimiter", [], consts, set())
    gs, t, ty = g.expr(P(lex(m.group(1))).expr(), {"rate": ("rate", "u8")})
    o.append(f"/-- the `interval` initialiser of `RateLimiter::new(rate: u8)`; `none` = panic -/\n"
             f"def RateLimiter.newInterval (rate : Nat) : Option Nat :=\n  if ({' ∧ '.join(gs) if gs else 'True'}) then some {t} else none\n")
    m = re.search(r"capacity\s*:\s*([^,]+),", strip_comments(body))
    gs, t, ty = g.expr(P(lex(m.group(1))).expr(), {})
    o.append(f"/-- the `capacity` initialiser of `RateLimiter::new` -/\ndef RateLimiter.newCapacity : Nat := {t}\n")
    # ---- AtomicPosition
    ap = find_struct(stt, "AtomicPosition")
    if [f for f, _ in ap] != ["pos", "capacity", "prev", "start"]:
        raise Fail(f"struct AtomicPosition has fields {ap}")
    o.append("structure AtomicPosition where\n" + "".join(f"  {f} : Nat  -- {t}\n" for f, t in ap) + "deriving Repr, DecidableEq\n")
    fields = [("self." + f, f, t) for f, t in ap]
    consts = {"MAX_BURST": ("posMaxBurst", find_const(stt, "MAX_BURST")[0]), "INTERVAL": ("posInterval", find_const(stt, "INTERVAL")[0])}
    o.append(translate_fn(stt, "AtomicPosition", "allow", "AtomicPosition", fields, None, consts))
    for fn in ("inc", "dec", "set"):
        o.append(translate_fn(stt, "AtomicPosition", fn, "AtomicPosition", fields, None, consts))
    o.append(translate_fn(stt, "AtomicPosition", "reset", "AtomicPosition", fields, None, consts, inline=("set",)))
    # ---- BarState length operations (the part that touches `self.state.len`)
    o.append("structure LenState where\n  len : Option Nat  -- ProgressState.len : Option<u64>\nderiving Repr, DecidableEq\n")
    lf = [("self.state.len", "len", "Option<u64>")]
    for fn in ("set_length", "unset_length", "inc_length", "dec_length"):
        o.append(translate_fn(stt, "BarState", fn, "LenState", lf, None, {}, ignore=("update_estimate_and_draw",)))
    # ---- format.rs: duration constants, UNITS, FormattedDuration
    fm = open(os.path.join(repo, "src/format.rs")).read()
    o.append("/-- a piece of formatted text: literal characters, or an unsigned integer in decimal, zero-padded to `pad` digits -/\n"
             "inductive FmtPiece where\n  | lit (cs : List Char)\n  | num (v : Nat) (pad : Nat)\nderiving Repr, DecidableEq\n")
    dur = {}
    for name in ("SECOND", "MINUTE", "HOUR", "DAY", "WEEK", "YEAR"):
        m = re.search(r"const\s+" + name + r"\s*:\s*Duration\s*=\s*Duration::from_secs\(([^)]*)\)\s*;", fm)
        if not m:
            raise Fail(f"const {name}: Duration::from_secs(..) not found")
        g0 = Gen("const", [], {}, set())
        gs, t, _ = g0.expr(P(lex(m.group(1))).expr(), {})
        # integer literals without a suffix are plain naturals here: no overflow guard is generated (gs is empty)
        o.append(f"/-- `{name}` of src/format.rs, in seconds -/\ndef dur{name.capitalize()}Secs : Nat := {t}\n")
        dur[name] = f"dur{name.capitalize()}Secs"
    m = re.search(r"const\s+UNITS\s*:[^=]*=\s*&\[(.*?)\];", fm, flags=re.S)
    if not m:
        raise Fail("const UNITS not found")
    rows = re.findall(r"\(\s*(\w+)\s*,\s*\"(\w+)\"\s*,\s*\"(\w+)\"\s*\)", m.group(1))
    if not rows or any(r[0] not in dur for r in rows) or len(rows) != m.group(1).count("("):
        raise Fail("UNITS: rows not understood")
    o.append("/-- `UNITS` of src/format.rs: (unit in seconds, name, short name), in table order -/\ndef units : List (Nat × String × String) :=\n  ["
             + ", ".join(f'({dur[a]}, "{b}", "{c}")' for a, b, c in rows) + "]\n")
    params, ret, body = find_fn(fm, r"fmt::Display\s+for\s+FormattedDuration", "fmt")
    g1 = Gen("FormattedDuration", [], {}, set())
    g1.out_fields = None
    code = g1.block(P(lex(body)).stmts(), {"self.0.as_secs": ("secs", "u64"), "f": ("f", "fmt")}, "  ",
                    lambda e2, i2: (_ for _ in ()).throw(Fail("FormattedDuration::fmt: control reaches the end")))
    o.append("/-- `<FormattedDuration as Display>::fmt`: the text written, as pieces; `secs` is `self.0.as_secs()` -/\n"
             "def formattedDuration (secs : Nat) : List FmtPiece :=\n" + code + "\n")
    # ---- style.rs: the integer skeleton of `PaddedStringDisplay::fmt`
    sty0 = open(os.path.join(repo, "src/style.rs")).read()
    m = re.search(r"enum\s+Alignment\s*\{([^}]*)\}", sty0)
    if not m:
        raise Fail("enum Alignment not found")
    avars = [v.strip() for v in strip_comments(m.group(1)).split(",") if v.strip()]
    if sorted(avars) != ["Center", "Left", "Right"]:
        raise Fail(f"enum Alignment has variants {avars}")
    o.append("/-- `enum Alignment` of src/style.rs -/\ninductive Alignment where\n" + "".join(f"  | {v}\n" for v in avars) + "deriving Repr, DecidableEq\n")
    o.append("/-- what `PaddedStringDisplay::fmt` writes: the whole string, the byte slice `start..end` of it (the whole string when that is\n"
             "not a valid slice), or the string between `left` and `right` spaces -/\n"
             "inductive PadAction where\n  | Whole\n  | Slice (start stop : Nat)\n  | Pad (left right : Nat)\nderiving Repr, DecidableEq\n")
    params, ret, body = find_fn(sty0, r"fmt::Display\s+for\s+PaddedStringDisplay<'_>", "fmt")
    body_nc = strip_comments(body)
    cut = re.search(r"\n\s*for\s+_\s+in\s+0\s*\.\.\s*left_pad", body_nc)
    tail_ok = re.search(r"for\s+_\s+in\s+0\s*\.\.\s*left_pad\s*\{\s*f\.write_char\(' '\)\?;\s*\}\s*f\.write_str\(self\.str\)\?;\s*"
                        r"for\s+_\s+in\s+0\s*\.\.\s*right_pad\s*\{\s*f\.write_char\(' '\)\?;\s*\}\s*Ok\(\(\)\)\s*$", body_nc)
    if not (cut and tail_ok):
        raise Fail("PaddedStringDisplay::fmt: the padding tail (left_pad spaces, the string, right_pad spaces) was not recognised")
    def pad_return(gen, e, env):
        # f.write_str(self.str)  |  f.write_str(self.str.get(a..b).unwrap_or(self.str))
        if not (e[0] == "mcall" and e[1] == ("var", "f") and e[2] == "write_str" and len(e[3]) == 1):
            raise Fail("PaddedStringDisplay::fmt: unexpected return expression")
        a = e[3][0]
        strf = ("field", ("var", "self"), "str")
        if a == strf:
            return [], ".Whole"
        if (a[0] == "mcall" and a[2] == "unwrap_or" and a[3] == [strf] and a[1][0] == "mcall" and a[1][2] == "get" and a[1][1] == strf
                and len(a[1][3]) == 1 and a[1][3][0][0] == "bin" and a[1][3][0][1] == ".."):
            g1, t1, _ = gen.expr(a[1][3][0][2], env)
            g2, t2, _ = gen.expr(a[1][3][0][3], env)
            return g1 + g2, f"(.Slice {t1} {t2})"
        raise Fail("PaddedStringDisplay::fmt: unexpected return expression")
    g5 = Gen("PaddedStringDisplay", [], {}, set())
    g5.out_fields, g5.return_hook = "opt", pad_return
    g5.enums = {"Alignment": [(v, []) for v in avars]}
    g5.free_fns = {"measure_text_width": ("id_cols", [("s", "str")], "usize")}
    env5 = {"self.width": ("width", "usize"), "self.truncate": ("truncate", "bool"), "self.align": ("align", "Alignment"),
            "self.str.len": ("len", "usize"), "self.str": ("cols", "usize")}
    # `measure_text_width(self.str)` is the argument `cols`, `self.str.len()` the argument `len`
    st5 = P(lex(body_nc[:cut.start()].replace("measure_text_width(self.str)", "self.str"))).stmts() + [("tail", ("call", ["PadAction", "Pad"], [("var", "left_pad"), ("var", "right_pad")]))]
    g5_call = Gen.expr
    def expr5(self, e, env, _orig=Gen.expr):
        if e[0] == "call" and e[1] == ["PadAction", "Pad"]:
            g1, t1, _ = _orig(self, e[2][0], env)
            g2, t2, _ = _orig(self, e[2][1], env)
            return g1 + g2, f"(.Pad {t1} {t2})", "PadAction"
        return _orig(self, e, env)
    g5.expr = lambda e, env: expr5(g5, e, env)
    code = g5.block(st5, env5, "  ", lambda e2, i2: (_ for _ in ()).throw(Fail("PaddedStringDisplay::fmt: control reaches the end")))
    o.append("/-- `<PaddedStringDisplay as Display>::fmt`, the integer skeleton: `cols` is `measure_text_width(self.str)`, `len` is `self.str.len()`\n"
             "(bytes); `none` = panic (the byte arithmetic of the truncating branch underflows) -/\n"
             "def paddedFmt (cols len width : Nat) (truncate : Bool) (align : Alignment) : Option PadAction :=\n" + code + "\n")
    # ---- style.rs: the indices `get_tick_str` / `get_final_tick_str` compute, and what the builders assert
    for fn, nm, ps in (("get_tick_str", "tickIndex", "(nticks idx : Nat)"), ("get_final_tick_str", "finalTickIndex", "(nticks : Nat)")):
        params, ret, body = find_fn(sty0, "ProgressStyle", fn)
        st6 = P(lex(body)).stmts()
        if len(st6) != 1 or st6[0][0] != "tail":
            raise Fail(f"ProgressStyle::{fn} is not a single expression")
        g6 = Gen("ProgressStyle", [], {}, set())
        env6 = {"self.tick_strings.len": ("nticks", "usize"), "idx": ("idx", "u64")}
        gs6, t6, ty6 = g6.expr(st6[0][1], env6)
        if ty6 != "index":
            raise Fail(f"ProgressStyle::{fn} does not return an element of tick_strings")
        o.append(f"/-- the index into `tick_strings` that `ProgressStyle::{fn}` reads (`nticks` = `self.tick_strings.len()`); `none` = panic\n"
                 f"(underflow of `len - 1`, remainder by zero, index out of bounds) -/\n"
                 f"def {nm} {ps} : Option Nat :=\n  if ({' ∧ '.join(gs6)}) then some {t6} else none\n")
    for fn, nm, ps, envb in (("tick_chars", "tickCharsAccepts", "(n : Nat)", {"self.tick_strings.len": ("n", "usize")}),
                             ("tick_strings", "tickStringsAccepts", "(n : Nat)", {"self.tick_strings.len": ("n", "usize")}),
                             ("progress_chars", "progressCharsAccepts", "(n w : Nat)", {"self.progress_chars.len": ("n", "usize"), "self.char_width": ("w", "usize")})):
        params, ret, body = find_fn(sty0, "ProgressStyle", fn)
        conds = []
        for mm in re.finditer(r"assert!\s*\(\s*([^,]+),", strip_comments(body)):
            g7 = Gen("ProgressStyle", [], {}, set())
            gs7, t7, ty7 = g7.expr(P(lex(mm.group(1))).expr(), envb)
            if gs7 or ty7 != "bool":
                raise Fail(f"ProgressStyle::{fn}: assertion {mm.group(1)!r} outside the translated subset")
            conds.append(t7)
        if not conds:
            raise Fail(f"ProgressStyle::{fn}: no assertion found")
        o.append(f"/-- what the assertions of `ProgressStyle::{fn}` demand ({'`n` = number of tick strings' if 'tick' in fn else '`n` = number of progress character clusters, `w` = their common width (`width()` asserts that it is common)'}) -/\n"
                 f"def {nm} {ps} : Prop := {' ∧ '.join(conds)}\n")
    # ---- defaults of state.rs / style.rs
    ty, v = const_value(stt, "DEFAULT_TAB_WIDTH")
    o.append(f"/-- `DEFAULT_TAB_WIDTH: {ty}` of src/state.rs -/\ndef defaultTabWidth : Nat := {v}\n")
    sty = open(os.path.join(repo, "src/style.rs")).read()
    params, ret, body = find_fn(sty, "ProgressStyle", "new")
    m1 = re.search(r'let\s+progress_chars\s*=\s*segment\("([^"\\]*)"\)', body)
    m2 = re.search(r'tick_strings\s*:\s*"([^"\\]*)"\s*\.chars\(\)', body)
    m3 = re.search(r"tab_width\s*:\s*DEFAULT_TAB_WIDTH", body)
    if not (m1 and m2 and m3):
        raise Fail("ProgressStyle::new: default progress characters / tick strings / tab width not found")
    o.append("/-- code points of the default progress characters (`ProgressStyle::new`) -/\ndef defaultProgressChars : List Nat := ["
             + ", ".join(str(ord(c)) for c in m1.group(1)) + "]\n")
    o.append("/-- code points of the default tick characters (`ProgressStyle::new`), one tick string each -/\ndef defaultTickChars : List Nat := ["
             + ", ".join(str(ord(c)) for c in m2.group(1)) + "]\n")
    for fn, nm in (("default_bar", "defaultBarTemplate"), ("default_spinner", "defaultSpinnerTemplate")):
        params, ret, body = find_fn(sty, "ProgressStyle", fn)
        m = re.search(r'Template::from_str\("([^"\\]*)"\)', body)
        if not m:
            raise Fail(f"ProgressStyle::{fn}: template literal not found")
        o.append(f"/-- the template of `ProgressStyle::{fn}` (code points) -/\ndef {nm} : List Nat := [" + ", ".join(str(ord(c)) for c in m.group(1)) + "]\n")
    m = re.search(r"const\s+EXPONENTIAL_WEIGHTING_SECONDS\s*:\s*f64\s*=\s*(\d+)\.0\s*;\s*(\d+)\.(\d+)_f64\.powf\(age\s*/\s*EXPONENTIAL_WEIGHTING_SECONDS\)", stt)
    if not m:
        raise Fail("estimator_weight: `BASE.powf(age / EXPONENTIAL_WEIGHTING_SECONDS)` not found")
    o.append(f"/-- `estimator_weight(age) = base ^ (age / seconds)`: `seconds`, and `base` as numerator / denominator -/\n"
             f"def estimatorWeightSeconds : Nat := {m.group(1)}\ndef estimatorWeightBase : Nat × Nat := ({int(m.group(2) + m.group(3))}, {10 ** len(m.group(3))})\n")
    # ---- MultiState: slot bookkeeping (members / free_set / ordering)
    mu = open(os.path.join(repo, "src/multi.rs")).read()
    ms = dict(find_struct(mu, "MultiState"))
    for f, t in (("members", "Vec<MultiStateMember>"), ("free_set", "Vec<usize>"), ("ordering", "Vec<usize>")):
        if ms.get(f) != t:
            raise Fail(f"MultiState.{f}: expected {t}, found {ms.get(f)}")
    m = re.search(r"enum\s+InsertLocation\s*\{([^}]*)\}", mu)
    if not m:
        raise Fail("enum InsertLocation not found")
    variants = []
    for v in strip_comments(m.group(1)).split(","):
        v = v.strip()
        if not v:
            continue
        vm = re.match(r"(\w+)(?:\((\w+)\))?$", v)
        if not vm or (vm.group(2) and vm.group(2) not in INT_T):
            raise Fail(f"enum InsertLocation: variant not understood: {v!r}")
        variants.append((vm.group(1), [vm.group(2)] if vm.group(2) else []))
    o.append("/-- `enum InsertLocation` of src/multi.rs -/\ninductive InsertLocation where\n"
             + "".join(f"  | {v}{''.join(' (a : Nat)' for _ in fs)}\n" for v, fs in variants) + "deriving Repr, DecidableEq\n")
    o.append("/-- the slot bookkeeping fields of `MultiState`; `M` stands for `MultiStateMember` -/\n"
             "structure MultiSlots (M : Type) where\n  members : List M\n  free_set : List Nat\n  ordering : List Nat\n")
    mf = [("self.members", "members", "Vec<M>"), ("self.free_set", "free_set", "Vec<usize>"), ("self.ordering", "ordering", "Vec<usize>")]
    kw = dict(inline_expr=("len",), default_of={"MultiStateMember": ("dflt", "M")}, enums={"InsertLocation": variants},
              generics="{M : Type} (dflt : M) ")
    o.append(translate_fn(mu, "MultiState", "insert", "(MultiSlots M)", mf, None, {}, **kw).replace("def (MultiSlots M).", "def MultiSlots."))
    o.append(translate_fn(mu, "MultiState", "remove_idx", "(MultiSlots M)", mf, None, {}, **kw).replace("def (MultiSlots M).", "def MultiSlots."))
    o.append("end IndicatifModel.Generated\n")
    text = "\n".join(o)
    if not os.path.exists(out) or open(out).read() != text:
        open(out, "w").write(text)
    # ---- the estimator (f64 code, generic in the arithmetic `Estimator.Ops`): a second generated file
    e = ["import IndicatifModel.Model.Estimator\n"
         "/-! GENERATED by tools/rs2lean.py from src/state.rs — do not edit.\n"
         "`Estimator::{record, reset, steps_per_second}` and `duration_to_secs`, generic in the arithmetic `Estimator.Ops α`: `f64` operations\n"
         "become `o.add/sub/mul/div`, integer-to-float conversions `o.ofNat`, `estimator_weight` the opaque `o.w`; floating point never\n"
         "panics, integer subtraction does (`none`). -/\n"
         "set_option linter.unusedVariables false\nnamespace IndicatifModel.Generated\nopen IndicatifModel\n"]
    params, ret, body = find_free_fn(stt, "duration_to_secs")
    if params != [("d", "Duration")] or ret != "f64":
        raise Fail(f"duration_to_secs has signature {params} -> {ret}")
    g2 = Gen("free", [], {}, set())
    st = P(lex(body)).stmts()
    if len(st) != 1 or st[0][0] != "tail":
        raise Fail("duration_to_secs is not a single expression")
    gs, t, ty = g2.expr(st[0][1], {"d": ("d", "Duration")})
    if gs or ty != "f64":
        raise Fail("duration_to_secs: unexpected guards or type")
    e.append(f"/-- `duration_to_secs(d: Duration) -> f64` (`d` in nanoseconds) -/\ndef durationToSecs {{α : Type}} (o : Estimator.Ops α) (d : Nat) : α :=\n  {t}\n")
    params, ret, body = find_free_fn(stt, "estimator_weight")
    if params != [("age", "f64")] or ret != "f64":
        raise Fail(f"estimator_weight has signature {params} -> {ret}")
    es = find_struct(stt, "Estimator")
    if es != [("smoothed_steps_per_sec", "f64"), ("double_smoothed_steps_per_sec", "f64"), ("prev_steps", "u64"), ("prev_time", "Instant"), ("start_time", "Instant")]:
        raise Fail(f"struct Estimator has fields {es}")
    e.append("structure EstimatorS (α : Type) where\n" + "".join(f"  {f} : {'α' if t == 'f64' else 'Nat'}  -- {t}\n" for f, t in es))
    ef = [("self." + f, f, t) for f, t in es]
    free = {"duration_to_secs": ("durationToSecs o", [("d", "Duration")], "f64"), "estimator_weight": ("o.w", [("age", "f64")], "f64")}
    kw2 = dict(generics="{α : Type} (o : Estimator.Ops α) ", free_fns=free)
    for fn, extra in (("reset", {}), ("record", dict(inline=("reset",))), ("steps_per_second", {})):
        e.append(translate_fn(stt, "Estimator", fn, "(EstimatorS α)", ef, None, {}, **kw2, **extra).replace("def (EstimatorS α).", "def EstimatorS."))
    e.append("end IndicatifModel.Generated\n")
    text2 = "\n".join(e)
    out2 = os.path.join(os.path.dirname(out), "EstimatorFuns.lean")
    if not os.path.exists(out2) or open(out2).read() != text2:
        open(out2, "w").write(text2)
    # ---- bar geometry (f32 code, generic in the arithmetic `BarGeo.Arith`): a third generated file
    b = ["import IndicatifModel.Model.BarGeo\n"
         "/-! GENERATED by tools/rs2lean.py from src/state.rs and src/style.rs — do not edit.\n"
         "`ProgressState::fraction` and the arithmetic of `ProgressStyle::format_bar`, generic in `BarGeo.Arith α`: `f32` multiplication and\n"
         "division are `A.mul` / `A.div`, `n as f32` is `A.ofNat`, `x as usize` is `A.trunc`, `<` / `>` are `A.lt`, `fract()` is `A.fract`;\n"
         "`none` = the Rust code panics (division by a zero `char_width`). -/\n"
         "set_option linter.unusedVariables false\nnamespace IndicatifModel.Generated\nopen IndicatifModel\n"]
    params, ret, body = find_fn(stt, "ProgressState", "fraction")
    if params or ret != "f32":
        raise Fail(f"ProgressState::fraction has signature {params} -> {ret}")
    g3 = Gen("ProgressState", [], {}, set())
    g3.fvar, g3.out_fields = "A", None
    env3 = {"self.pos.pos": ("pos", "u64"), "self.len": ("len", ("opt", "u64"))}
    code = g3.block(P(lex(body)).stmts(), env3, "  ", lambda e2, i2: (_ for _ in ()).throw(Fail("fraction: control reaches the end")))
    b.append("/-- `ProgressState::fraction(&self) -> f32` with `self.pos.pos` and `self.len` as arguments -/\n"
             "def fraction {α : Type} (A : BarGeo.Arith α) (pos : Nat) (len : Option Nat) : α :=\n" + code + "\n")
    params, ret, body = find_fn(sty, "ProgressStyle", "format_bar")
    if [p for p, _ in params] != ["fract", "width", "alt_style"] or params[0][1] != "f32" or params[1][1] != "usize":
        raise Fail(f"ProgressStyle::format_bar has parameters {params}")
    cut = re.search(r"\n\s*let\s+rest\s*=", body)
    tailm = re.search(r"BarDisplay\s*\{\s*chars\s*:\s*&self\.progress_chars\s*,\s*filled\s*:\s*entirely_filled\s*,\s*cur\s*,\s*rest\s*:", strip_comments(body))
    restm = re.search(r"let\s+rest\s*=\s*RepeatedStringDisplay\s*\{\s*str\s*:\s*&self\.progress_chars\[self\.progress_chars\.len\(\)\s*-\s*1\]\s*,\s*num\s*:\s*bg\s*,?\s*\}", strip_comments(body))
    if not (cut and tailm and restm):
        raise Fail("ProgressStyle::format_bar: the BarDisplay { filled: entirely_filled, cur, rest: <bg cells> } tail was not recognised")
    g4 = Gen("ProgressStyle", [], {}, set())
    g4.fvar, g4.out_fields = "A", "opt"
    env4 = {"fract": ("fract", "f32"), "width": ("width", "usize"), "self.char_width": ("cw", "usize"), "self.progress_chars.len": ("nchars", "usize")}
    st4 = P(lex(body[:cut.start()])).stmts() + [("tail", ("tuple", [("var", "entirely_filled"), ("var", "cur"), ("var", "bg")]))]
    code = g4.block(st4, env4, "  ", lambda e2, i2: (_ for _ in ()).throw(Fail("format_bar: control reaches the end")))
    b.append("/-- the arithmetic of `ProgressStyle::format_bar(fract, width, _)`: (`filled`, `cur`, number of background cells) of the `BarDisplay`\n"
             "it returns; `cw` is `self.char_width`, `nchars` is `self.progress_chars.len()` -/\n"
             "def formatBar {α : Type} (A : BarGeo.Arith α) (fract : α) (width cw nchars : Nat) : Option (Nat × Option Nat × Nat) :=\n" + code + "\n")
    b.append("end IndicatifModel.Generated\n")
    text3 = "\n".join(b)
    out3 = os.path.join(os.path.dirname(out), "BarGeoFuns.lean")
    if not os.path.exists(out3) or open(out3).read() != text3:
        open(out3, "w").write(text3)
    print("rs2lean: ok,", text.count("\ndef ") + text2.count("\ndef ") + text3.count("\ndef "), "definitions")


if __name__ == "__main__":
    try:
        main()
    except Fail as e:
        sys.exit(f"rs2lean: {e}")
