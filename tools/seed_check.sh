#!/bin/bash
# usage: seed_check.sh <seed-id> <check ids...>   applies /verif/seeded/<id>/patch.diff to /repo, runs the checks, undoes it
ID=$1; shift
cd /verif
git -C /repo apply /verif/seeded/$ID/patch.diff || { echo "PATCH DOES NOT APPLY"; exit 2; }
for c in "$@"; do r=$(timeout 1800 ./check $c 2>&1 | grep -E "^(OK|VIOLATION)" | tail -1); echo "$ID $c: $r"; done
git -C /repo checkout -- .
git checkout -q -- evidence 2>/dev/null
