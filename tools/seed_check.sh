#!/bin/bash
# usage: seed_check.sh <seed-id> <check ids...>   applies /verif/seeded/<id>/patch.diff to the repository
# (VERIF_REPO, default /repo), runs the checks, undoes it
ID=$1; shift
cd "$(dirname "$0")/.."
R="${VERIF_REPO:-/repo}"
git -C "$R" apply "$PWD/seeded/$ID/patch.diff" || { echo "$ID PATCH DOES NOT APPLY"; exit 2; }
for c in "$@"; do r=$(timeout 1800 ./check $c 2>&1 | grep -E "^(OK|VIOLATION)" | tail -1); echo "$ID $c: $r"; done
git -C "$R" checkout -- .
# the generated files are those of the repository again
VERIF_REPO="$R" tools/regen.sh >/dev/null 2>&1
git checkout -q -- evidence 2>/dev/null
