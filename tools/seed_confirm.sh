#!/bin/bash
# usage: seed_confirm.sh <seed-id> <worktree> <patch> <demo test name>
# confirms a seeded change in its scratch worktree (nothing of /repo or of the checks is touched): the patch applies on a
# clean tree, both builds, the baseline tests pass with it, the demonstration fails with it and passes without it;
# files patch, demonstration, notes and the outcome under /verif/seeded/<seed-id>/. The checks are run separately
# (tools/seed_check.sh, e.g. in a `vp run --with-repo` snapshot).
set -u
ID=$1; WT=$2; PATCH=$3; DEMO=$4
export CARGO_NET_OFFLINE=true
OUT=/verif/seeded/$ID; mkdir -p $OUT
cp "$PATCH" $OUT/patch.diff
cp $WT/tests/$DEMO.rs $OUT/$DEMO.rs 2>/dev/null; [ -f "${PATCH%.patch}.notes.md" ] && cp "${PATCH%.patch}.notes.md" $OUT/SEED_NOTES.md
cd $WT && git checkout -q -- src && git apply --check $OUT/patch.diff || { echo "$ID PATCH DOES NOT APPLY"; exit 2; }
FEAT="in_memory,rayon,tokio,futures,verif-hooks"
demo() { timeout 900 cargo test --offline --features $FEAT --test $DEMO 2>&1 | grep -E "^test result|error(\[|:)" | head -3; }
D0=$(demo)
git apply $OUT/patch.diff
B1=$(cargo build --offline 2>&1 | tail -1); B2=$(cargo build --offline --features $FEAT 2>&1 | tail -1)
H=$(mktemp -d); mv tests/seed_demo*.rs $H/
T1=$(timeout 900 cargo test --workspace --no-fail-fast --offline 2>&1 | grep -E "^test result" | tr '\n' ' ')
mv $H/*.rs tests/; rmdir $H
D1=$(demo)
git checkout -q -- src
python3 - "$ID" "$D0" "$D1" "$T1" "$B1 / $B2" <<'PY'
import json, sys
i, d0, d1, t1, b = sys.argv[1:6]
p = f"/verif/seeded/{i}/meta.json"
try: m = json.load(open(p))
except Exception: m = {}
m.update(dict(id=i, demo_without_change=d0, demo_with_change=d1, baseline_tests_with_change=t1, builds_with_change=b))
json.dump(m, open(p, "w"), indent=1)
PY
echo "$ID without: $D0 | with: $D1 | baseline: $T1 | builds: $B1 / $B2"
