#!/bin/bash
# usage: seed_eval.sh <seed-id> <worktree> <patch> <demo test name> <check ids...>
# 1. confirms the seeded change in the scratch worktree: applies on a clean tree, both builds, baseline tests pass,
#    the demonstration fails with it and passes without it;
# 2. applies it to /repo, runs the given checks, undoes it; 3. files everything under /verif/seeded/<seed-id>/.
set -u
ID=$1; WT=$2; PATCH=$3; DEMO=$4; shift 4; CHECKS="$@"
export CARGO_NET_OFFLINE=true
OUT=/verif/seeded/$ID; mkdir -p $OUT
cp "$PATCH" $OUT/patch.diff
cp $WT/tests/$DEMO.rs $OUT/$DEMO.rs 2>/dev/null; [ -f "${PATCH%.patch}.notes.md" ] && cp "${PATCH%.patch}.notes.md" $OUT/SEED_NOTES.md
cd $WT && git checkout -q -- src && git apply --check $OUT/patch.diff || { echo "PATCH DOES NOT APPLY"; exit 2; }
FEAT="in_memory,rayon,tokio,futures,verif-hooks"
demo() { timeout 600 cargo test --offline --features $FEAT --test $DEMO 2>&1 | grep -E "^test result|error(\[|:)" | head -3; }
echo "== without the change: demo"; D0=$(demo); echo "$D0"
git apply $OUT/patch.diff
echo "== with the change: builds"; B1=$(cargo build --offline 2>&1 | tail -1); B2=$(cargo build --offline --features $FEAT 2>&1 | tail -1); echo "$B1 / $B2"
echo "== with the change: baseline tests"; H=$(mktemp -d); mv tests/seed_demo*.rs $H/
T1=$(timeout 900 cargo test --workspace --no-fail-fast --offline 2>&1 | grep -E "^test result" | tr '\n' ' '); echo "$T1"
mv $H/*.rs tests/; rmdir $H
echo "== with the change: demo"; D1=$(demo); echo "$D1"
git checkout -q -- src
cd /verif
git -C /repo apply $OUT/patch.diff || { echo "PATCH DOES NOT APPLY TO /repo"; exit 2; }
RES=""
for c in $CHECKS; do
  r=$(timeout 1800 ./check $c 2>&1 | grep -E "^(OK|VIOLATION)" | tail -1); echo "== check $c: $r"; RES="$RES$c: $r; "
done
git -C /repo checkout -- .
git checkout -q -- evidence 2>/dev/null
python3 - "$ID" "$D0" "$D1" "$T1" "$B1 / $B2" "$RES" <<'PY'
import json, sys
i, d0, d1, t1, b, res = sys.argv[1:7]
p = f"/verif/seeded/{i}/meta.json"
try: m = json.load(open(p))
except Exception: m = {}
m.update(dict(id=i, demo_without_change=d0, demo_with_change=d1, baseline_tests_with_change=t1, builds_with_change=b, checks=res))
json.dump(m, open(p, "w"), indent=1)
PY
echo "== done $ID"
