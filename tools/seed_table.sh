#!/bin/bash
# re-runs every seeded change against the check of the property it was written for; prints one line per seed.
# optional argument: a regular expression selecting seed ids (e.g. '^C0[1-6]').
# In a `vp run --with-repo` snapshot: VERIF_REPO=$VP_RUN_REPO tools/seed_table.sh (runs setup.sh first when nothing is built)
cd "$(dirname "$0")/.."
[ -x lean/.lake/build/bin/driver ] || ./setup.sh >/dev/null 2>&1 || { echo "setup failed"; exit 2; }
for d in seeded/*/; do id=$(basename $d); [[ "$id" =~ ${1:-.} ]] || continue; prop=${id%-*}; r=$(tools/seed_check.sh $id $prop 2>&1 | tail -1); echo "$r"; done
