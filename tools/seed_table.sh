#!/bin/bash
# re-runs every seeded change against the check of the property it was written for; prints one line per seed
cd /verif
for d in seeded/*/; do id=$(basename $d); prop=${id%-*}; r=$(tools/seed_check.sh $id $prop 2>&1 | tail -1); echo "$r"; done
