#!/usr/bin/env python3
"""validate MANIFEST.json and evidence/*.json against the schemas (needs jsonschema: run with python3-vt)"""
import glob, json, sys, jsonschema
ok = True
def v(path, schema):
    global ok
    try:
        jsonschema.validate(json.load(open(path)), json.load(open(schema))); print("valid  ", path)
    except Exception as e:
        ok = False; print("INVALID", path, str(e)[:300])
v("/verif/MANIFEST.json", "/root/.vp/MANIFEST.schema.json")
for f in sorted(glob.glob("/verif/evidence/*.json")): v(f, "/root/.vp/EVIDENCE.schema.json")
sys.exit(0 if ok else 1)
